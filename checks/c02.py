"""C02 - only the in-flight request id is accepted, and only once.

Scenarios (E4): histories of invocations {ok, error, timeout, crash} followed by a further invocation;
a stale (id of an earlier invocation), duplicate (current id a second time) or unknown submission
(response or error) is made at every point of the following invocation: before it arrives, after it
arrived but before the runtime polled, after the runtime received it, after the response was posted,
after completion.  E3 decides: refused with 400 (wrong id) or 403 (illegal state), the caller of the
following invocation receives exactly the body posted for its own id, the runtime automaton is where it
would be without the refused call (the next legal call behaves accordingly), later invocations proceed.
"""
import random

from scen import Scn
import scenario_common as sc
import mcrapid
import forced

POINTS = ["before-arrival", "before-poll", "after-delivery", "after-response", "after-completion"]
SUBMISSIONS = [("response", "stale:1"), ("error", "stale:1"), ("response", "unknown"), ("response", "current"), ("error", "current"),
               ("response", "stale:2"), ("response", "upper"), ("error", "upper")]


def one(sid, rnd, first, point, sub):
    api, idc = sub
    s = Scn(sid, ext=[], timeout_ms=350)
    s.meta(family="stale", first=first, point=point, submission=list(sub))
    s.init()
    s.await_exec(kind="rt")
    poll = s.poll("rt")

    def submit():
        kw = {"errType": "Function.Stale"} if api == "error" else {}
        s.call("rt", api, id=idc, body="stale-or-dup-%s" % idc.replace(":", ""), **kw)

    # ---- a warm-up invocation so that "stale:2" exists, then the first invocation of the given kind
    it = s.invoke(size=3, seed=1)
    s.wait(poll)
    s.call("rt", "response", id="current", body="warmup")
    poll = s.poll("rt")
    s.wait(it)
    it = s.invoke(size=3, seed=2)
    s.wait(poll)
    fresh = False
    if first == "ok":
        s.call("rt", "response", id="current", body="first-ok")
        poll = s.poll("rt")
        s.wait(it)
    elif first == "error":
        s.call("rt", "error", id="current", body='{"errorMessage":"first"}', errType="Function.First")
        poll = s.poll("rt")
        s.wait(it)
    elif first == "timeout":
        s.wait(it)
        fresh = True
    elif first == "crash":
        s.exit("rt", code=1)
        s.wait(it)
        fresh = True
    # ---- the following invocation with the submission placed at `point`
    if point == "before-arrival" and not fresh:
        submit()
    m = s.mark()
    it = s.invoke(size=5, seed=3)
    if fresh:
        s.await_exec(kind="rt", since=m)
        if point in ("before-arrival", "before-poll"):
            submit()        # made by the newly started runtime before its first poll
        poll = s.call("rt", "next", async_=True)
    elif point == "before-poll":
        submit()            # the runtime is parked in its poll: the submission comes over a second connection
    s.wait(poll)
    if point == "after-delivery":
        submit()
    s.call("rt", "response", id="current", body="second-own-body")
    if point == "after-response":
        submit()
    poll = s.poll("rt")
    s.wait(it)
    if point == "after-completion":
        submit()
    # ---- and one more to see that nothing lingers
    it = s.invoke(size=2, seed=4)
    s.wait(poll)
    s.call("rt", "response", id="current", body="third")
    poll = s.poll("rt")
    s.wait(it)
    return s.done()


def late(sid, api, fault):
    """a submission for the current id after the platform itself has answered the caller (an extension crashed, the
    invocation failed, the failure reset is shutting the environment down while the runtime - which ignores
    SIGTERM - is still there): it is a second answer for that id and is refused; the reset completes, the caller
    gets the platform's answer only, the next invocation is served"""
    subs = {"e1": ["INVOKE", "SHUTDOWN"]}
    s = Scn(sid, ext=["e1"], timeout_ms=2000, opWaitMs=8000, onTerm={"runtime": "ignore", "e1": "ignore"})
    s.meta(family="late", submission=api, fault=fault)
    tags = s.boot(subs)
    s.round(tags, subs)
    inv = s.invoke(size=3, seed=1)
    s.wait(tags["rt"])
    s.wait(tags["ext:e1"])
    if fault == "ext-crash":
        s.exit("ext:e1", code=1)
    else:
        s.call("ext:e1", "exterror", which="exit", errType="Extension.Fault")
        s.exit("ext:e1", code=1)
    s.until_ev("Terminate", n=1)
    kw = {"errType": "Function.Late"} if api == "error" else {}
    s.call("rt", api, id="current", body="late-answer", **kw)
    s.wait(inv)
    s.recover(subs)
    return s.done()


BADMODE = {"Lambda-Runtime-Function-Response-Mode": "buffered-please"}


def during_upload(sid, first, second, bad_mode):
    """the first submission for the current id is still uploading its body when a second one for the same id arrives
    over another connection: the second is refused (403, the runtime is in its "response" state) and changes nothing -
    also when it carries a response-mode header that would be refused for itself; the first completes, the caller gets
    the first one's body"""
    s = Scn(sid, ext=[], timeout_ms=1500, opWaitMs=6000)
    s.meta(family="during-upload", first=first, second=second, bad_mode=bad_mode)
    s.init()
    s.await_exec(kind="rt")
    tags = {"rt": s.poll("rt")}
    s.round(tags, {})
    it = s.invoke(size=5, seed=7)
    s.wait(tags["rt"])
    s.hold("drv.body:u1", 1)
    kw1 = {"errType": "Function.First"} if first == "error" else {}
    a = s.call("rt", first, async_=True, id="current", size=3000, seed=5, headers={"X-Verif-Slow-Body": "u1"}, **kw1)
    s.until_held("drv.body:u1")
    kw2 = {"errType": "Function.Second"} if second == "error" else {}
    if bad_mode and second == "response":
        kw2["headers"] = dict(BADMODE)
    s.call("rt", second, id="current", body="second-submission", **kw2)
    s.release("drv.body:u1")
    s.wait(a)
    tags["rt"] = s.poll("rt")
    s.wait(it)
    s.round(tags, {})
    return s.done()


def bad_mode(sid, point):
    """a /response with a response-mode header other than "streaming": as a first submission it is answered 400 and the
    caller gets the empty payload of the Runtime.InvalidResponseModeHeader error (the invocation then runs out of time:
    the runtime cannot go on);
    with a stale id, or after the response was posted, it is refused like any other and has no effect"""
    s = Scn(sid, ext=[], timeout_ms=400, opWaitMs=6000)
    s.meta(family="during-upload", point=point, bad_mode=True)
    s.init()
    s.await_exec(kind="rt")
    tags = {"rt": s.poll("rt")}
    s.round(tags, {})
    it = s.invoke(size=5, seed=7)
    s.wait(tags["rt"])
    if point == "first":
        s.call("rt", "response", id="current", body="never-delivered", headers=dict(BADMODE))
        s.call("rt", "next")            # 403: the runtime is left in its "response" state
        s.wait(it)
        s.recover({})
        return s.done()
    if point == "stale":
        s.call("rt", "response", id="stale:1", body="stale-bad-mode", headers=dict(BADMODE))
    s.call("rt", "response", id="current", body="own-answer")
    if point == "after-response":
        s.call("rt", "response", id="current", body="dup-bad-mode", headers=dict(BADMODE))
    tags["rt"] = s.poll("rt")
    s.wait(it)
    s.round(tags, {})
    return s.done()


def upload_scenarios(ctx):
    out = []
    n = 0
    for first in ("response", "error"):
        for second, bad in (("response", False), ("response", True), ("error", False)):
            n += 1
            out.append(during_upload("c02-up%d" % n, first, second, bad))
    for point in ("first", "stale", "after-response"):
        out.append(bad_mode("c02-mode-%s" % point, point))
    return out


def late_scenarios(ctx):
    out = []
    for i, (api, fault) in enumerate([("response", "ext-crash"), ("error", "ext-crash"), ("response", "ext-exit-error")]):
        out.append(late("c02-late%d" % (i + 1), api, fault))
    return out


def scenarios(ctx):
    rnd = random.Random(ctx.seed * 53 + 2)
    out = []
    n = 0
    for first in ("ok", "error", "timeout", "crash"):
        for point in POINTS:
            subs = SUBMISSIONS if not ctx.quick else rnd.sample(SUBMISSIONS, 4)
            for sub in subs:
                n += 1
                out.append(one("c02-%03d" % n, rnd, first, point, sub))
    return out


def run(ctx):
    ctx.level = "model_checking"
    # E1: the property predicates as invariants of the composite (spec/MC_Rapid.tla)
    mcrapid.check(ctx, ['StreamOwnerIsReserver', 'OkHasBody'])
    # forced schedules through the pause points of /repo (-tags verif)
    sc.run_families(ctx, forced.scenarios('c02', ('stale-error-in-flight', 'stale-response-in-flight', 'stale-error-slow-body', 'stale-response-slow-big')), "forced-schedule")
    ctx.assumptions += sc.ASSUME
    sc.run_families(ctx, scenarios(ctx), "stale")
    sc.run_families(ctx, late_scenarios(ctx), "late")
    sc.run_families(ctx, upload_scenarios(ctx), "during-upload")
    ctx.coverage["exhaustive"] = not ctx.quick


replay = sc.replay
