"""C18 - snapshot restore protocol and credential endpoint.

Scenarios (E4, init-caching mode): all orders of {restore request, runtime's restore poll, hook completion
(next), hook error (restore/error, init/error), hook timeout, runtime exit}; runtime that never enters
the restore poll; credentials asked with the right / a wrong / no token before and after restores; a
following invocation.  E3 (stamped): restore succeeds only after the parked runtime was released, and polled
for next; a hook that does not finish fails with the timeout error no earlier than the hook timeout and at
most RestoreSlack later; a reported error fails it with the sanitised type; without a restore poll it returns
at once; credentials are served only for the per-instance token and reflect the most recent restore.
The process environment of the runtime must not contain the credentials themselves (projection on Exec).
"""
import itertools
import random

from scen import Scn
import scenario_common as sc
import mcrapid

HOOKS = ["next", "restoreerror", "initerror", "timeout", "exit", "nopoll", "next-before-restore"]


def one(sid, rnd, hook, order, nx, creds_when, extlate=False):
    exts = ["e%d" % (i + 1) for i in range(nx)]
    subs = {e: ["INVOKE"] for e in exts}
    s = Scn(sid, ext=exts, timeout_ms=600, initCaching=True, onTerm={e: "exit" for e in exts}, fullEnv=True)
    s.meta(family="restore", hook=hook, order=order, extlate=extlate)
    s.init()
    tags = {}
    for e in exts:
        s.await_exec(base=e)
        s.register("ext:" + e, subs[e])
    s.await_exec(kind="rt")
    if not extlate:
        for e in exts:
            tags["ext:" + e] = s.poll("ext:" + e)
    # extlate: the extensions are still initialising (registered, first poll outstanding) while the restore
    # protocol runs: initialisation has not completed, the restore must still wait for the hook
    if "before" in creds_when:
        s.call("rt", "creds", id="ok")
        s.call("rt", "creds", id="wrong")
        s.call("rt", "creds", id="empty")
    polled = None
    if hook == "nopoll":
        # the runtime skips the restore poll and asks for its first event directly
        polled = s.poll("rt")
        s.call("", "restore", ms=300, label="A")
    elif hook == "next-before-restore":
        s.call("", "restore", ms=300, label="A")       # nobody is parked: returns at once
        polled = s.call("rt", "restorenext", async_=True)
        s.settle("rt", polled)
    else:
        if order == "poll-first":
            rp = s.call("rt", "restorenext", async_=True)
            s.until_state("rt", "RestoreReady")
            rt = s.call("", "restore", async_=True, tag=s.tag("R"), ms=300, label="A")
        else:
            rt = s.call("", "restore", async_=True, tag=s.tag("R"), ms=300, label="A")
            s.sleep(5)
            rp = s.call("rt", "restorenext", async_=True)
        if order == "poll-first":
            s.wait(rp)
            if hook == "next":
                polled = s.poll("rt")
            elif hook == "restoreerror":
                s.call("rt", "restoreerror", errType=rnd.choice(["Runtime.HookFailed", "bad hook type", "Function.Custom"]))
            elif hook == "initerror":
                s.call("rt", "initerror", body='{"errorMessage":"hook"}', errType=rnd.choice(["Runtime.HookInit", "weird"]))
            elif hook == "exit":
                s.exit("rt", code=1)
            s.wait(rt)
        else:
            s.wait(rt)          # restore first: nobody was parked, it returned at once
            s.settle("rt", rp)
    if extlate:
        for e in exts:
            tags["ext:" + e] = s.poll("ext:" + e)
    if "after" in creds_when:
        s.call("rt", "creds", id="ok")
        s.call("rt", "creds", id="wrong")
    if hook in ("next", "nopoll") and polled is not None:
        # a second restore updates the credentials again; then an invocation is served
        s.call("", "restore", ms=200, label="B")
        s.call("rt", "creds", id="ok")
        it = s.invoke(size=3, seed=1)
        s.wait(polled)
        for e in exts:
            s.wait(tags["ext:" + e])
        s.call("rt", "response", id="current", body="after-restore")
        s.poll("rt")
        for e in exts:
            s.poll("ext:" + e)
        s.wait(it)
    return s.done()


def late_hook(sid, gap):
    """the restore hook of the runtime outlives its deadline (the restore fails with the timeout); an invocation
    arrives while the runtime is still busy with the hook; when the runtime finally asks for its first event it
    gets that invocation at once"""
    s = Scn(sid, ext=[], timeout_ms=1500, initCaching=True, fullEnv=True)
    s.meta(family="restore", hook="late", order="poll-first", gap=gap)
    s.init()
    s.await_exec(kind="rt")
    rp = s.call("rt", "restorenext", async_=True)
    s.until_state("rt", "RestoreReady")
    rt = s.call("", "restore", async_=True, tag=s.tag("R"), ms=150, label="A")
    s.wait(rp)
    s.wait(rt)                  # hook timeout
    it = s.invoke(size=3, seed=1)
    s.sleep(gap)
    polled = s.poll("rt")
    s.wait(polled)
    s.call("rt", "response", id="current", body="after-late-hook")
    s.poll("rt")
    s.wait(it)
    return s.done()


def zero_timeout(sid, ms):
    """a restore whose hook timeout is zero (or negative): with the runtime parked in its restore poll and silent
    afterwards the restore fails with the hook timeout at once - it does not wait for ever"""
    s = Scn(sid, ext=[], timeout_ms=1500, initCaching=True, fullEnv=True)
    s.meta(family="restore", hook="silent", order="poll-first", ms=ms)
    s.init()
    s.await_exec(kind="rt")
    rp = s.call("rt", "restorenext", async_=True)
    s.until_state("rt", "RestoreReady")
    rt = s.call("", "restore", async_=True, tag=s.tag("R"), ms=ms, label="A")
    s.wait(rp)
    s.wait(rt)
    s.call("rt", "creds", id="ok")
    return s.done()


def exit_while_parked(sid, code):
    """the runtime exits while it is parked in its restore poll; the restore that is requested afterwards fails (there
    is nobody to run the hook) - it is not reported successful"""
    s = Scn(sid, ext=[], timeout_ms=1500, initCaching=True, fullEnv=True)
    s.meta(family="restore", hook="exit-while-parked", order="poll-first", code=code)
    s.init()
    s.await_exec(kind="rt")
    rp = s.call("rt", "restorenext", async_=True)
    s.until_state("rt", "RestoreReady")
    s.exit("rt", code=code)
    s.sleep(60)
    rt = s.call("", "restore", async_=True, tag=s.tag("R"), ms=400, label="A")
    s.wait(rt)
    return s.done()


def scenarios(ctx):
    rnd = random.Random(ctx.seed * 181 + 18)
    out = []
    n = 0
    for hook in HOOKS:
        for order in ("poll-first", "restore-first"):
            if hook in ("nopoll", "next-before-restore") and order == "restore-first":
                continue
            for nx in ((0, 1) if not ctx.quick else (rnd.choice([0, 1]),)):
                n += 1
                out.append(one("c18-%03d" % n, rnd, hook, order, nx, rnd.choice([("before", "after"), ("after",), ("before",)])))
    # extensions that are still initialising while the restore protocol runs
    for hook in ("next", "restoreerror", "timeout") if ctx.quick else HOOKS:
        n += 1
        out.append(one("c18-%03d" % n, rnd, hook, "poll-first", 1, ("after",), extlate=True))
    if not ctx.quick:
        # every hook x order x number of extensions x when the credentials are asked, with fresh random error types
        for hook in HOOKS:
            for order in ("poll-first", "restore-first"):
                if hook in ("nopoll", "next-before-restore") and order == "restore-first":
                    continue
                for nx in (0, 1, 2):
                    for cw in (("before", "after"), ("after",), ("before",), ()):
                        n += 1
                        out.append(one("c18-%03d" % n, rnd, hook, order, nx, cw))
    for i, ms in enumerate((0,) if ctx.quick else (0, -5, 1)):
        out.append(zero_timeout("c18-zero%d" % (i + 1), ms))
    for i, gap in enumerate((40, 150) if ctx.quick else (0, 10, 40, 150, 400)):
        out.append(late_hook("c18-late%d" % (i + 1), gap))
    for i, code in enumerate((1,) if ctx.quick else (0, 1, 137)):
        out.append(exit_while_parked("c18-exitparked%d" % (i + 1), code))
    # plain mode: the snapshot routes and the credentials endpoint do not exist
    s = Scn("c18-plain", ext=[], timeout_ms=400)
    s.meta(family="restore-plain")
    s.init()
    s.await_exec(kind="rt")
    s.call("rt", "creds", id="ok")
    s.call("rt", "restorenext")
    s.call("rt", "restoreerror", errType="Runtime.X")
    out.append(s.done())
    return out


def run(ctx):
    ctx.level = "model_checking"
    ctx.assumptions += sc.ASSUME + ["'shortly after the hook timeout' is read as at most 500 ms later"]
    # E1: snapshot mode in spec/MC_Rapid.tla (restore requests, restore poll / error of the runtime, hook deadline)
    mcrapid.check(ctx, ['RestoreOkOnlyAfterHook', 'NoCrash', 'RuntimeAfterRegistrations'], extra_configs=('restore',) if ctx.quick else ('restore', 'restore2'))
    sc.run_families(ctx, scenarios(ctx), "restore", require_done=True)
    ctx.coverage["exhaustive"] = False


replay = sc.replay
