"""C05 - timeout: bounded answer, full teardown, fresh environment next.

Scenarios (E4): a party stalls in every phase {extension before register, extension before next, runtime
before its first next, runtime before the response, runtime before returning to next, extension after the
event} with 0..2 extensions; the invocation must be answered with the timeout outcome, not before the
function timeout and within timeout + reset allowance (stamped trace), after the processes of that
environment were terminated or killed, and the next invocation must be served by newly started processes.
Race sweep: the response is posted at offsets around the expiry; the outcome is either the response or
the timeout (strict-timer rule off for these scenarios), never both, a hang or a crash.
"""
import random

from scen import Scn
import scenario_common as sc
import mcrapid
import c01
import forced

PHASES = ["ext-preregister", "ext-prenext", "rt-prenext", "rt-preresponse", "rt-prepoll", "ext-postevent"]


def stall(sid, rnd, nx, phase):
    exts = ["e%d" % (i + 1) for i in range(nx)]
    subs = {e: rnd.choice([["INVOKE"], ["INVOKE", "SHUTDOWN"]]) for e in exts}
    s = Scn(sid, ext=exts, timeout_ms=350, onTerm={e: "exit" for e in exts}, exitLagMs=rnd.choice([0, 0, 15]))
    s.meta(family="stall", phase=phase, subs=subs)
    s.init()
    tags = {}
    it = None
    victim = exts[0] if exts else None
    if rnd.random() < 0.5:
        it = s.invoke(size=4, seed=1)
    stalled = False
    for e in exts:
        s.await_exec(base=e)
        if phase == "ext-preregister" and e == victim:
            stalled = True
            break
        s.register("ext:" + e, subs[e])
    if not stalled:
        s.await_exec(kind="rt")
        for e in exts:
            if phase == "ext-prenext" and e == victim:
                continue
            tags["ext:" + e] = s.poll("ext:" + e)
        if phase != "rt-prenext":
            tags["rt"] = s.poll("rt")
    if it is None:
        it = s.invoke(size=4, seed=1)
    if phase in ("rt-preresponse", "rt-prepoll", "ext-postevent"):
        s.wait(tags["rt"])
        for e in exts:
            s.wait(tags["ext:" + e])
        if phase in ("rt-prepoll", "ext-postevent"):
            s.call("rt", "response", id="current", body="late-is-fine")
        if phase == "ext-postevent":
            tags["rt"] = s.poll("rt")
            for e in exts:
                if e != victim:
                    tags["ext:" + e] = s.poll("ext:" + e)
    s.wait(it)
    # SHUTDOWN subscribers that are polling exit on their event (fast teardown); then recovery
    s.recover(subs)
    return s.done()


def race(sid, rnd, nx, offset):
    exts = ["e%d" % (i + 1) for i in range(nx)]
    subs = {e: ["INVOKE"] for e in exts}
    T = 300
    s = Scn(sid, ext=exts, timeout_ms=T, onTerm={e: "exit" for e in exts})
    s.meta(family="race", race=True, offset=offset)
    tags = s.boot(subs)
    it = s.invoke(size=4, seed=1)
    s.wait(tags["rt"])
    for e in exts:
        s.wait(tags["ext:" + e])
    s.sleep(T + offset)
    s.call("rt", "response", id="current", body="around-expiry")
    s.call("rt", "next", async_=True)
    for e in exts:
        s.call("ext:" + e, "next", async_=True)
    s.wait(it)
    s.sleep(30)
    return s.done()


def teardown(sid, api, delay):
    """the answer arrives after the expiry, while the timeout reset is still tearing the environment down (an extension
    is there, so the runtime - which ignores SIGTERM - gets a grace period and is still alive): the caller gets the
    timeout all the same, the reset completes, the next invocation is served by new processes"""
    subs = {"e1": ["INVOKE", "SHUTDOWN"]}
    s = Scn(sid, ext=["e1"], timeout_ms=400, opWaitMs=8000, onTerm={"runtime": "ignore", "e1": "ignore"})
    s.meta(family="teardown", api=api, delay=delay)
    tags = s.boot(subs)
    it = s.invoke(size=4, seed=1)
    s.wait(tags["rt"])
    s.wait(tags["ext:e1"])
    te = s.poll("ext:e1")
    s.until_ev("Terminate", n=1)
    s.sleep(delay)
    kw = {"errType": "Function.Late"} if api == "error" else {}
    s.call("rt", api, id="current", body="during-teardown", **kw)
    s.wait(te)                  # SHUTDOWN
    s.exit("ext:e1", code=0)
    s.wait(it)
    s.recover(subs)
    return s.done()


def teardown_scenarios(ctx):
    out = []
    for i, (api, delay) in enumerate([("response", 20), ("error", 150)] if ctx.quick else
                                     [(a, d) for a in ("response", "error") for d in (0, 20, 150, 400)]):
        out.append(teardown("c05t-%02d" % i, api, delay))
    return out


def scenarios(ctx):
    rnd = random.Random(ctx.seed * 389 + 5)
    out = []
    n = 0
    for nx in (0, 1, 2):
        for phase in PHASES:
            if nx == 0 and phase.startswith("ext-"):
                continue
            for rep in range(1 if ctx.quick else 4):
                n += 1
                out.append(stall("c05-%03d" % n, rnd, nx, phase))
    return out


def race_scenarios(ctx):
    rnd = random.Random(ctx.seed * 389 + 55)
    out = []
    offs = list(range(-12, 13, 3)) if ctx.quick else list(range(-20, 21, 1))
    for i, off in enumerate(offs):
        out.append(race("c05r-%03d" % i, rnd, i % 2, off))
    return out


def run(ctx):
    ctx.level = "model_checking"
    # E1: the property predicates as invariants of the composite (spec/MC_Rapid.tla)
    mcrapid.check(ctx, ['NoGhostInvoke', 'NoCrash'])
    # forced schedules through the pause points of /repo (-tags verif)
    sc.run_families(ctx, forced.scenarios('c05', ('ghost-invoke', 'clear-vs-invoke', 'stale-shutdown')), "forced-schedule")
    ctx.assumptions += sc.ASSUME + ["race sweep: offsets of the response relative to the expiry are sampled, not enumerated"]
    sc.run_families(ctx, scenarios(ctx), "stall")
    sc.run_families(ctx, race_scenarios(ctx), "race")
    sc.run_families(ctx, teardown_scenarios(ctx), "teardown")
    # timeouts seen through the HTTP front end: the caller gets the timeout answer only (also when the runtime had
    # already answered but not polled again), within the bound, and the next request is served by a new environment
    import random
    rnd = random.Random(ctx.seed * 101 + 5)
    hist = [["timeout"], ["answered-timeout"], ["answered-timeout", "timeout"]] + ([] if ctx.quick else [["ok", "answered-timeout", "error"], ["timeout", "timeout"], ["exit", "answered-timeout"]])
    sc.run_families(ctx, [c01.one("c05-fe%02d" % i, rnd, h + ["ok"], False, fe=True) for i, h in enumerate(hist)], "frontend")
    ctx.coverage["exhaustive"] = False


replay = sc.replay
