"""C11 - the barrier primitive behaves as an atomic counting latch.

E1  TLC on spec/Gate.tla (waiters with the woken/re-test window, all interleavings).
E2  every edge of the quiescent quotient graph (spec/GateQ.tla) replayed on real
    core.NewGate objects; return values and parked/returned status of each waiter
    compared (goroutine wait state inspection, no sleeps).
"""
import json
import re
import os
import shutil

import tlc
import walk
from common import Inconclusive, build_harness, run_vh, log


def _tlc_design(ctx):
    cfg = "MC_Gate_quick.cfg" if ctx.quick else "MC_Gate_thorough.cfg"
    r = tlc.run_tlc("Gate", cfg, timeout=900, coverage=False)
    ctx.add_tlc(r, cfg)
    if r.violation:
        raise Inconclusive("specification Gate violates %s under %s - the specification is wrong:\n%s"
                           % (r.violation, cfg, "".join(r.trace)[-3000:]))
    log("E1 Gate %s: %d distinct states, %d transitions, depth %d, %.1fs"
        % (cfg, r.distinct, r.generated, r.depth, r.wall_s))
    # non-vacuity: the latch without the broadcast in SetCount must violate NoLostWakeup
    r2 = tlc.run_tlc("Gate", "MC_Gate_asfound.cfg", timeout=300)
    if r2.error:
        raise Inconclusive("TLC as-found config: %s" % r2.error)
    if r2.violation != "NoLostWakeup":
        raise Inconclusive("vacuity guard: NoLostWakeup not violated by the latch without broadcast (got %s)" % r2.violation)
    ctx.coverage["vacuity_guard"] = "NoLostWakeup violated at depth %d when SetCount does not broadcast" % len(r2.trace)


def _walk(ctx, cfg, max_len, max_paths=None):
    r = tlc.run_tlc("GateQ", cfg, timeout=900, extra_args=["-dump", "dot,actionlabels", "g.dot"], keep=True)
    ctx._tmp.append(r.scratch)
    ctx.add_tlc(r, cfg)
    if r.violation:
        raise Inconclusive("GateQ violates %s" % r.violation)
    g = walk.load_dot(os.path.join(r.scratch, "g.dot"))
    paths, cov, total = walk.cover_paths(g, max_len=max_len, seed=ctx.seed, max_paths=max_paths)
    wf = os.path.join(r.scratch, "walk.json")
    walk.write_walk(g, paths, wf, meta={"spec": "GateQ", "cfg": cfg, "seed": ctx.seed})
    return g, paths, wf, cov, total


def _replay_file(wf, out, maxdiv=5):
    p = run_vh(["gatewalk", "-in", wf, "-out", out, "-maxdiv", str(maxdiv)], timeout=3000)
    if p.returncode != 0 or not os.path.exists(out):
        raise Inconclusive("gatewalk driver failed rc=%s: %s" % (p.returncode, p.stderr[-2000:]))
    with open(out) as f:
        rep = json.load(f)
    if rep.get("error"):
        raise Inconclusive("gatewalk: " + rep["error"])
    return rep


def _shortest_to_edge(g, ei):
    """Shortest path (edge indices) from an initial state to edge ei, ending with ei."""
    from collections import deque
    target = g.edges[ei][0]
    best = None
    for init in g.inits:
        prev = {init: None}
        dq = deque([init])
        while dq:
            u = dq.popleft()
            if u == target:
                break
            for e in g.out[u]:
                v = g.edges[e][1]
                if v not in prev:
                    prev[v] = e
                    dq.append(v)
        if target in prev:
            p = []
            v = target
            while prev[v] is not None:
                p.append(prev[v])
                v = g.edges[prev[v]][0]
            p.reverse()
            if best is None or len(p) < len(best[1]):
                best = (init, p)
    return best[0], best[1] + [ei]


def _report_divergences(ctx, g, paths, rep, tag):
    seen = set()
    for d in rep.get("divergences") or []:
        start, path = paths[d["path"]]
        ei = path[d["step"]]
        if ei in seen:
            continue
        seen.add(ei)
        # minimise: shortest path to the failing edge, confirmed by re-execution
        init, sp = _shortest_to_edge(g, ei)
        name = "%s-edge%d" % (tag, ei)
        rd = ctx.replay_dir(name)
        wf = os.path.join(rd, "walk.json")
        walk.write_walk(g, [(init, sp)], wf, meta={"spec": "GateQ", "minimised_from": d["prefix"][-10:]})
        # keep only what the single path needs? the graph is small enough to keep as is
        rep2 = _replay_file(wf, os.path.join(rd, "report.json"), maxdiv=1)
        if not rep2.get("divergences"):
            # the short path does not fail: keep the original (long) path
            walk.write_walk(g, [(start, path[:d["step"] + 1])], wf, meta={"spec": "GateQ"})
            rep2 = _replay_file(wf, os.path.join(rd, "report.json"), maxdiv=1)
            if not rep2.get("divergences"):
                raise Inconclusive("divergence not reproducible: %s" % d["what"])
        d2 = rep2["divergences"][0]
        with open(os.path.join(rd, "replay.json"), "w") as f:
            json.dump({"property": "C11", "engine": "gatewalk", "walk": "walk.json",
                       "what": d2["what"], "actions": d2["prefix"], "init": d2["init"]}, f, indent=1)
        what = "%s after %s from %s" % (d2["what"], " ".join(d2["prefix"]), json.dumps(d2["init"]["g"]))
        kf = ctx.known_matching(lambda m: m.get("engine") == "gatewalk" and m.get("last_action_name") == g.edges[ei][2]
                                and m.get("what_contains", "") in d2["what"])
        if kf:
            ctx.known_finding(kf, what)
        else:
            ctx.violation(rd, what)


def run(ctx):
    ctx.level = "model_checking"
    build_harness()
    _tlc_design(ctx)
    # unbounded: the two state invariants are inductive (TLAPS, spec/GateProof.tla) for any set of waiters, any counts
    # and any number of steps - what TLC checks within 3 waiters / counts 0..3 holds without those bounds
    ok, nobl, out = tlc.tlapm("GateProof", timeout=600)
    if not ok:
        raise Inconclusive("TLAPS could not prove spec/GateProof.tla: " + out[-800:])
    log("E1 TLAPS GateProof: all %d obligations proved (ArrivedLeCount, NoLostWakeup inductive, unbounded)" % nobl)
    ctx.coverage["tlaps_obligations_proved"] = nobl
    cfg = "MC_GateQ_walk2.cfg" if ctx.quick else "MC_GateQ_walk3.cfg"
    g, paths, wf, cov, total = _walk(ctx, cfg, max_len=300)
    rep = _replay_file(wf, os.path.join(os.path.dirname(wf), "report.json"), maxdiv=8)
    log("E2 GateQ %s: %d nodes, %d edges, %d paths, %d steps replayed, %d edges confirmed on core.NewGate"
        % (cfg, len(g.nodes), len(g.edges), len(paths), rep["steps"], rep["edges_covered"]))
    _report_divergences(ctx, g, paths, rep, "walk")
    ctx.coverage.update({
        "traces_validated_against_impl": rep["paths"],
        "walk": {"graph_nodes": len(g.nodes), "graph_edges": len(g.edges), "paths": len(paths),
                 "steps_replayed": rep["steps"], "edges_confirmed": rep["edges_covered"],
                 "actions": rep["actions"]},
        "exhaustive": rep["edges_covered"] == len(g.edges),
        "evaluations": rep["steps"],
        "distinct_nontrivial": rep["edges_covered"],
        "rule": "one evaluation = one edge of the GateQ state graph executed on a real gate with real waiter "
                "goroutines; distinct = distinct graph edges whose observed waiter status, waiter results and "
                "return value equal the specification's",
        "samples": rep.get("samples") or [],
    })
    _stress(ctx)
    _flows(ctx)
    ctx.assumptions += [
        "a goroutine reported as [sync.Cond.Wait] by runtime.Stack is parked on the latch's condition variable",
        "counts explored: see cfg (0..3 and 65535); errors nil/e1/e2; arrivals bounded by 4 in the walk",
        "the wake/re-test window of a waiter is exercised by back-to-back operations (not forced); the state at each return is observed under the latch's lock",
    ]
    if not ctx.violations and rep["edges_covered"] != len(g.edges) and not ctx.known:
        raise Inconclusive("walk incomplete: %d of %d edges" % (rep["edges_covered"], len(g.edges)))


def _stress(ctx, episodes=None, replay_dir=None):
    """E3 for the window between the waking broadcast and the waiter's re-test: return observations of a stress run
    (harness/gate/stress.go, hook core.VerifGateHook) validated by TLC against spec/Trace_GateReturn.tla"""
    import shutil
    import traceprep
    episodes = episodes or (3000 if ctx.quick else 40000)
    scratch = tlc.make_scratch("verif-gstress-")
    ctx._tmp.append(scratch)
    of = os.path.join(scratch, "obs.ndjson")
    p = run_vh(["gatestress", "-seed", str(ctx.seed), "-reps", str(episodes), "-out", of], timeout=1200)
    if p.returncode != 0 or not os.path.exists(of):
        raise Inconclusive("gatestress driver failed rc=%s: %s" % (p.returncode, p.stderr[-1500:]))
    obs = traceprep.load_ndjson(of)
    if len(obs) < episodes:
        raise Inconclusive("gatestress: %d return observations for %d episodes (hook not compiled in?)" % (len(obs), episodes))
    # distinct observations are enough for the verdict; the first offending one (if any) is kept with its episode
    seen, uniq = set(), []
    for o in obs:
        k = (o["arrived"], o["count"], o["canceled"])
        if k not in seen:
            seen.add(k)
            uniq.append(o)
    traceprep.write_ndjson(os.path.join(scratch, "trace.ndjson"), uniq)
    r = tlc.run_tlc("Trace_GateReturn", "Trace_GateReturn.cfg", workers=1, timeout=300, scratch=scratch, dfs=True)
    hws = [int(x) for x in re.findall(r'"hw", (\d+)', r.out)]
    hw = max(hws) if hws else 1
    rewoken = sum(1 for o in obs if not o["canceled"] and o["op"] in ("reset", "reset-twice", "setcount-up", "clear"))
    log("E3 gate returns: %d episodes, %d return observations (%d distinct states), %d accepted" % (episodes, len(obs), len(uniq), hw - 1))
    ctx.coverage["gate_return_observations"] = len(obs)
    ctx.coverage["gate_return_distinct_states"] = len(uniq)
    if hw != len(uniq) + 1:
        bad = uniq[hw - 1]
        rd = replay_dir or ctx.replay_dir("gate-return")
        with open(os.path.join(rd, "replay.json"), "w") as f:
            json.dump({"property": "C11", "engine": "gatestress", "seed": ctx.seed, "episodes": episodes, "observation": bad}, f, indent=1)
        ctx.violation(rd, "AwaitGateCondition returned in a state in which its condition does not hold (arrived=%d, count=%d, canceled=%s; "
                          "episode %d of the stress run, operation after the waking arrival: %s): not allowed by Gate!ReturnIsJustified"
                      % (bad["arrived"], bad["count"], bad["canceled"], bad["episode"], bad["op"]))


def _flows(ctx, programs=None, replay_dir=None):
    """E3 for the flow objects built from the latch (lambda/core/flow.go): recorded programs over their whole method set
    (harness/gate/flow.go) validated by TLC against spec/Trace_Flow.tla, which composes the latch operators of GateOps"""
    import traceprep
    programs = programs or (60 if ctx.quick else 1200)
    scratch = tlc.make_scratch("verif-flow-")
    ctx._tmp.append(scratch)
    of = os.path.join(scratch, "trace.ndjson")
    p = run_vh(["flowprog", "-seed", str(ctx.seed), "-reps", str(programs), "-out", of], timeout=1200)
    if p.returncode != 0 or not os.path.exists(of):
        raise Inconclusive("flowprog driver failed rc=%s: %s" % (p.returncode, p.stderr[-1500:]))
    evs = traceprep.load_ndjson(of)
    r = tlc.run_tlc("Trace_Flow", "Trace_Flow.cfg", workers=1, timeout=900, scratch=scratch, dfs=True, heap="4g")
    hws = [int(x) for x in re.findall(r'"hw", (\d+)', r.out)]
    hw = max(hws) if hws else 1
    log("E3 flow objects: %d programs, %d events, %d explained" % (programs, len(evs), hw - 1))
    ctx.coverage["flow_programs"] = programs
    ctx.coverage["flow_events"] = len(evs)
    if r.error and hw <= 1:
        raise Inconclusive("Trace_Flow did not run: %s" % r.error[-800:])
    if hw != len(evs) + 1:
        bad = evs[hw - 1]
        # the program the event belongs to
        start = max(i for i in range(hw) if evs[i]["e"] == "New")
        rd = replay_dir or ctx.replay_dir("flow")
        with open(os.path.join(rd, "program.ndjson"), "w") as f:
            for e in evs[start:hw]:
                f.write(json.dumps(e) + "\n")
        with open(os.path.join(rd, "replay.json"), "w") as f:
            json.dump({"property": "C11", "engine": "flowprog", "seed": ctx.seed, "programs": programs, "event": bad}, f, indent=1)
        hist = " ".join("%s%s" % (e.get("op") or e["e"], ("(" + e["gate"] + ")") if e.get("gate") else "") for e in evs[start:hw][-8:])
        ctx.violation(rd, "flow object (%s flow): no latch operator of GateOps explains event %s after ... %s"
                      % (evs[start]["kind"], json.dumps({k: v for k, v in bad.items() if v not in ("", 0)}), hist))


def replay(ctx, d, meta):
    build_harness()
    if meta.get("engine") == "flowprog":
        ctx.seed = int(meta.get("seed", 1))
        _flows(ctx, programs=int(meta.get("programs", 60)), replay_dir=d)
        return
    if meta.get("engine") == "gatestress":
        ctx.seed = int(meta.get("seed", 1))
        _stress(ctx, episodes=int(meta.get("episodes", 3000)), replay_dir=d)
        return
    rep = _replay_file(os.path.join(d, meta["walk"]), os.path.join(d, "report.rerun.json"), maxdiv=1)
    ctx.coverage.update({"states": 1, "transitions": rep["steps"], "traces_validated_against_impl": rep["paths"],
                         "samples": [meta.get("actions")]})
    if rep.get("divergences"):
        ctx.violation(d, rep["divergences"][0]["what"])
    else:
        log("replay: the stored path is now accepted (%d steps)" % rep["steps"])
