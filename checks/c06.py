"""C06 - process exit or reported failure yields the right error, then recovery.

Scenarios (E4): the product of fault points of the runtime {during init before the first poll, after
init/error, after receiving the event, after posting the response, idle between invocations} and of an
extension {before register, after register, after its first event, after an init-error report, after an
exit-error report, idle, launch failure} x exit kind {0, non-zero, signal} x 0..2 extensions; afterwards
a further invocation must be served by newly started processes.  E3 decides: failure status, body class
(delivered response / runtime's init-error payload / JSON naming the first fault / empty) and recovery
must be what Rapid computes (firstFatal store-if-absent, cached init error, default error, reset).
"""
import random

from scen import Scn
import scenario_common as sc

EXITS = [dict(code=0), dict(code=3), dict(signal=9)]
RT_POINTS = ["init", "initerror", "event", "responded", "idle", "overhead"]
EXT_POINTS = ["preregister", "registered", "event", "initerror", "exiterror", "idle", "launchfail", "overhead"]


def kill(s, who, ex):
    s.exit(who, **ex)


def one(sid, rnd, nx, target, point, ex):
    exts = ["e%d" % (i + 1) for i in range(nx)]
    subs = {e: rnd.choice([["INVOKE"], ["INVOKE", "SHUTDOWN"], ["SHUTDOWN"], []]) for e in exts}
    victim = None
    opt = {}
    if target == "ext":
        victim = exts[0]
        if point in ("event", "overhead"):
            subs[victim] = ["INVOKE"] + (["SHUTDOWN"] if rnd.random() < 0.5 else [])
        if point == "launchfail":
            opt["launchFail"] = [victim]
    if point == "overhead" and target == "rt" and exts:
        subs[exts[0]] = ["INVOKE"]      # somebody must still be busy with the event when the runtime is back
    s = Scn(sid, ext=exts, timeout_ms=500, onTerm={e: "exit" for e in exts}, **opt)
    s.meta(family="fault", target=target, point=point, exit=ex, subs=subs)
    s.init()
    init_fault = (target == "rt" and point in ("init", "initerror")) or (target == "ext" and point in ("preregister", "registered", "initerror", "launchfail"))
    tags = {}
    if init_fault:
        # ---- the fault hits during initialisation; the first invocation arrives afterwards (or is pending)
        pending = rnd.random() < 0.5
        it = s.invoke(size=5, seed=1) if pending else None
        launched = True
        for e in exts:
            if target == "ext" and e == victim and point == "launchfail":
                launched = False
                break
            s.await_exec(base=e)
            if target == "ext" and e == victim and point == "preregister":
                kill(s, "ext:" + e, ex)
                launched = False
                break
            s.register("ext:" + e, subs[e])
            if target == "ext" and e == victim and point == "registered":
                pass
        if launched:
            s.await_exec(kind="rt")
            if target == "ext" and point == "registered":
                kill(s, "ext:" + victim, ex)
            elif target == "ext" and point == "initerror":
                s.call("ext:" + victim, "exterror", which="init", errType="Extension.ConfigMissing")
                kill(s, "ext:" + victim, ex)
            elif target == "rt" and point == "init":
                kill(s, "rt", ex)
            elif target == "rt" and point == "initerror":
                s.call("rt", "initerror", body='{"errorMessage":"cannot import","errorType":"Runtime.ImportError"}', errType="Runtime.ImportError")
                kill(s, "rt", ex)
        s.until_ev("Tel", key="kind", val="InitReport")
        if it is None:
            it = s.invoke(size=5, seed=1)
        s.wait(it)
    else:
        for e in exts:
            s.await_exec(base=e)
            s.register("ext:" + e, subs[e])
        s.await_exec(kind="rt")
        for e in exts:
            tags["ext:" + e] = s.poll("ext:" + e)
        tags["rt"] = s.poll("rt")
        listeners = ["ext:" + e for e in exts if "INVOKE" in subs[e]]
        if point == "idle":
            # a healthy invocation first, then the fault while everybody is parked, then the next invocation
            s.round(tags, subs)
            kill(s, "rt" if target == "rt" else "ext:" + victim, ex)
            s.until_ev("ExitDelivered", n=1)
            it = s.invoke(size=5, seed=2)
            s.wait(it)
        else:
            it = s.invoke(size=5, seed=2)
            s.wait(tags["rt"])
            for w in listeners:
                s.wait(tags[w])
            if target == "rt" and point == "event":
                kill(s, "rt", ex)
            elif target == "rt" and point == "responded":
                s.call("rt", "response", id="current", body="delivered-before-crash")
                kill(s, "rt", ex)
            elif target == "ext" and point == "event":
                kill(s, "ext:" + victim, ex)
            elif point == "overhead":
                # the runtime has answered and is back in its poll; an INVOKE subscriber is still busy with the event when
                # the fault hits: the invocation fails (the answer already delivered stays), the environment is reset
                s.call("rt", "response", id="current", body="delivered-before-crash")
                tags["rt"] = s.poll("rt")
                s.sleep(20)
                kill(s, "rt" if target == "rt" else "ext:" + victim, ex)
            elif target == "ext" and point == "exiterror":
                s.call("ext:" + victim, "exterror", which="exit", errType="Extension.Fatal")
                kill(s, "ext:" + victim, ex)
            s.wait(it)
    # ---- recovery: served by new processes
    if not (target == "ext" and point == "launchfail"):
        tags = s.recover(subs)
        if rnd.random() < 0.6:
            # a second fault in the recovered environment, and a second recovery
            it = s.invoke(size=5, seed=7)
            s.wait(tags["rt"])
            for w in tags:
                if w != "rt" and "INVOKE" in subs[w[4:]]:
                    s.wait(tags[w])
            second = rnd.choice(["rt"] + ["ext:" + e for e in exts])
            kill(s, second, rnd.choice(EXITS))
            s.wait(it)
            s.recover(subs)
    return s.done()


def scenarios(ctx):
    rnd = random.Random(ctx.seed * 613 + 6)
    out = []
    n = 0
    for nx in (0, 1, 2):
        for point in RT_POINTS:
            if point == "overhead" and nx == 0:
                continue
            for ex in (EXITS if not ctx.quick else [rnd.choice(EXITS)]):
                n += 1
                out.append(one("c06-%03d" % n, rnd, nx, "rt", point, ex))
        if nx == 0:
            continue
        for point in EXT_POINTS:
            for ex in (EXITS if not ctx.quick else [rnd.choice(EXITS)]):
                if point == "launchfail" and ex is not EXITS[0] and not ctx.quick:
                    continue
                n += 1
                out.append(one("c06-%03d" % n, rnd, nx, "ext", point, ex))
    if not ctx.quick:
        out2 = []
        for rep in range(3):
            for i, sc_ in enumerate(list(out)):
                pass
    return out


def run(ctx):
    ctx.level = "model_checking"
    ctx.assumptions += sc.ASSUME
    sc.run_families(ctx, scenarios(ctx), "fault")
    ctx.coverage["exhaustive"] = False


replay = sc.replay
