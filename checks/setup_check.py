"""MANIFEST.setup_cmd: offline sanity check - tools present, specifications parse."""
import os
import shutil
import subprocess
import sys

import tlc
from common import VERIF, HARNESS, REPO, goenv, log


def main():
    ok = True
    for tool in ("java", "go", "python3"):
        if shutil.which(tool) is None:
            log("missing tool: " + tool)
            ok = False
    if not os.path.exists("/opt/veriftools/tla/tla2tools.jar"):
        log("missing tla2tools.jar")
        ok = False
    spec = os.path.join(VERIF, "spec")
    mods = sorted(f[:-4] for f in os.listdir(spec) if f.endswith(".tla"))
    for m in mods:
        good, out = tlc.sany(m)
        if not good:
            log("SANY failed for %s:\n%s" % (m, out[-1500:]))
            ok = False
    log("setup: %d specification modules parsed" % len(mods))
    os.makedirs(os.path.join(VERIF, "build"), exist_ok=True)
    os.makedirs(os.path.join(VERIF, "evidence"), exist_ok=True)
    # warm the Go build cache (the checks rebuild from /repo's working tree anyway)
    shutil.copy(os.path.join(REPO, "go.sum"), os.path.join(HARNESS, "go.sum"))
    p = subprocess.run(["go", "build", "-tags", "verif", "-o", os.path.join(VERIF, "build", "vh"), "./cmd/vh"],
                       cwd=HARNESS, env=goenv(), stdout=subprocess.PIPE, stderr=subprocess.STDOUT, text=True)
    if p.returncode != 0:
        log("harness build failed:\n" + p.stdout[-3000:])
        ok = False
    return 0 if ok else 1
