"""C08 - a reset leaves no trace of earlier generations.

Scenarios (E4): a prefix {healthy invocations, runtime init error, runtime crash, timeout, extension
failure, extension init error} ends with the reset that the failure triggers; then a suffix scenario
(new extensions set incl. an internal one polling early, healthy invocations, a crash, a timeout) runs on
the same emulator instance.  Two validations per run (E3):
 (a) the whole trace must be a behaviour of Rapid (the model of the code as it is);
 (b) the suffix alone, with generations and invocation ordinals renumbered, must be a behaviour of Rapid
     started from the state of a fresh instance whose one-time init has been consumed.  (b) is the
     state formulation of "behaves exactly like a freshly started one": anything that survived the reset
     (barrier counts or arrivals, cancellation, registrations, first fatal error, cached init error,
     completion message) makes the suffix deviate from what a fresh instance can do.
"""
import copy
import random

from scen import Scn
import scenario_common as sc
import mcrapid
import forced
import runner
import tracecheck
import traceprep
from common import Inconclusive, build_harness, log

PREFIXES = ["healthy-timeout", "initerror", "crash", "timeout", "extcrash", "extiniterror", "one-ext-then-more", "ext-shutdown-error", "stubborn-ext",
            "init-timeout", "initerror-held-timeout"]
SUFFIXES = ["healthy", "crash", "early-internal", "timeout", "init-crash", "ext-early-exit"]


def prefix(s, rnd, kind):
    """returns the extension subscriptions used by the suffix"""
    if kind == "initerror":
        s.await_exec(kind="rt")
        s.call("rt", "initerror", body='{"errorMessage":"boom","errorType":"Runtime.Boom"}', errType="Runtime.Boom")
        s.exit("rt", code=1)
        s.until_ev("Tel", key="kind", val="InitReport")
        it = s.invoke(size=4, seed=1)
        s.wait(it)
    elif kind in ("init-timeout", "initerror-held-timeout"):
        # the invocation overlaps an initialisation that never completes and times out: what the interrupted
        # initialisation left behind (its failure, an error the runtime had reported) goes with that environment
        s.await_exec(kind="rt")
        if kind == "initerror-held-timeout":
            s.call("rt", "initerror", body='{"errorMessage":"boom","errorType":"Runtime.Boom"}', errType="Runtime.Boom")
        it = s.invoke(size=4, seed=1)
        s.wait(it)
    elif kind in ("crash", "timeout", "healthy-timeout"):
        s.await_exec(kind="rt")
        tags = {"rt": s.poll("rt")}
        if kind == "healthy-timeout":
            s.round(tags, {})
            s.round(tags, {})
        it = s.invoke(size=4, seed=1)
        s.wait(tags["rt"])
        if kind == "crash":
            s.exit("rt", code=2)
        s.wait(it)
    elif kind in ("extcrash", "extiniterror", "one-ext-then-more"):
        subs = {"e1": ["INVOKE"]}
        for e in subs:
            s.await_exec(base=e)
            s.register("ext:" + e, subs[e])
        s.await_exec(kind="rt")
        if kind == "extiniterror":
            s.call("ext:e1", "exterror", which="init", errType="Extension.NoConfig")
            s.exit("ext:e1", code=1)
            s.until_ev("Tel", key="kind", val="InitReport")
            it = s.invoke(size=4, seed=1)
            s.wait(it)
        else:
            tags = {"ext:e1": s.poll("ext:e1"), "rt": s.poll("rt")}
            s.round(tags, subs)
            it = s.invoke(size=4, seed=1)
            s.wait(tags["rt"])
            s.wait(tags["ext:e1"])
            if kind == "extcrash":
                s.exit("ext:e1", signal=9)
            s.wait(it)     # one-ext-then-more: the runtime does not answer -> timeout
    elif kind == "stubborn-ext":
        # the extension ignores its SHUTDOWN event: the timeout reset has to kill it at the 2 s deadline and reports a
        # failure - the environment is re-armed all the same
        subs = {"e1": ["INVOKE", "SHUTDOWN"]}
        s.await_exec(base="e1")
        s.register("ext:e1", subs["e1"])
        s.await_exec(kind="rt")
        tags = {"ext:e1": s.poll("ext:e1"), "rt": s.poll("rt")}
        it = s.invoke(size=4, seed=1)
        s.wait(tags["rt"])
        s.wait(tags["ext:e1"])
        t = s.poll("ext:e1")
        s.wait(t)           # SHUTDOWN, ignored
        s.wait(it)
    elif kind == "ext-shutdown-error":
        # the extension reports an error while the timeout reset is shutting the environment down: the fault
        # recorded then belongs to the generation that is going away
        subs = {"e1": ["INVOKE", "SHUTDOWN"]}
        s.await_exec(base="e1")
        s.register("ext:e1", subs["e1"])
        s.await_exec(kind="rt")
        tags = {"ext:e1": s.poll("ext:e1"), "rt": s.poll("rt")}
        it = s.invoke(size=4, seed=1)
        s.wait(tags["rt"])
        s.wait(tags["ext:e1"])
        t = s.poll("ext:e1")
        s.wait(t)           # SHUTDOWN
        s.call("ext:e1", "exterror", which="exit", errType="Extension.Boom")
        s.exit("ext:e1", code=1)
        s.wait(it)


def suffix(s, rnd, kind, subs):
    internal = {"i1": ["INVOKE"]} if kind == "early-internal" else {}
    m = s.mark()
    it = s.invoke(size=6, seed=99)
    if kind == "ext-early-exit" and subs:
        # an extension of the new generation exits before it has registered: the invocation fails with that fault at
        # once (a fresh instance notices an exit during the registration phase)
        name = sorted(subs)[0]
        s.await_exec(base=name, since=m)
        s.sleep(30)
        s.exit("ext:" + name, code=1)
        s.wait(it)
        return
    for name in subs:
        s.await_exec(base=name, since=m)
        s.register("ext:" + name, subs[name])
        # a late request carrying the identifier this extension was given in the previous generation is refused
        # (403 Extension.UnknownExtensionIdentifier) and changes nothing
        s.call("ext:" + name, "next", id="old")
    tags = {}
    if kind == "early-internal":
        # the internal extension registers and polls before the runtime's first poll
        for name, evs in internal.items():
            s.register("int:" + name, evs)
            tags["int:" + name] = s.poll("int:" + name)
    for name in subs:
        tags["ext:" + name] = s.poll("ext:" + name)
    s.await_exec(kind="rt", since=m)
    if kind == "init-crash":
        # the new generation fails on its own: the fault reported for it is its own first one
        s.exit("rt", code=3)
        s.wait(it)
        return
    tags["rt"] = s.call("rt", "next", async_=True)
    s.wait(tags["rt"])
    listeners = ["ext:" + n for n in subs if "INVOKE" in subs[n]] + ["int:" + n for n in internal if "INVOKE" in internal[n]]
    for w in listeners:
        s.wait(tags[w])
    if kind == "crash":
        s.exit("rt", code=7)
        s.wait(it)
        return
    if kind == "timeout":
        s.wait(it)
        return
    s.call("rt", "response", id="current", body="fresh-1")
    for w in ["rt"] + listeners:
        tags[w] = s.poll(w)
    s.wait(it)
    s.round(tags, subs, internal)


def one(sid, rnd, pre, suf):
    ext1 = ["e1"] if pre in ("extcrash", "extiniterror", "one-ext-then-more", "ext-shutdown-error", "stubborn-ext") else []
    # the suffix runs with the same directory (it cannot change), subscriptions may differ
    # (recordRelease: the runtime of each generation identifies itself; the identity carried by the result of every
    #  invocation is recorded - a generation that never started its runtime reports none, like a fresh instance)
    s = Scn(sid, ext=ext1, timeout_ms=500, onTerm={"e1": "exit"}, opWaitMs=6000, recordRelease=True)
    s.meta(family="reset-suffix", prefix=pre, suffix=suf)
    s.init()
    prefix(s, rnd, pre)
    s.op(op="mark", name="RESETDONE")
    subs = {e: rnd.choice([["INVOKE"], ["INVOKE", "SHUTDOWN"], []]) for e in ext1}
    suffix(s, rnd, suf, subs)
    return s.done()


def scenarios(ctx):
    rnd = random.Random(ctx.seed * 271 + 8)
    out = []
    n = 0
    for pre in PREFIXES:
        for suf in SUFFIXES:
            n += 1
            out.append(one("c08-%03d" % n, rnd, pre, suf))
    return out


def run(ctx):
    ctx.level = "model_checking"
    # E1: the property predicates as invariants of the composite (spec/MC_Rapid.tla)
    mcrapid.check(ctx, ['ResetIsFresh'])
    # forced schedules through the pause points of /repo (-tags verif)
    sc.run_families(ctx, forced.scenarios('c08', ('watch-late-cancel', 'clear-vs-invoke', 'stale-failure-record')), "forced-schedule")
    ctx.assumptions += sc.ASSUME
    scs = scenarios(ctx)
    summary, outcomes = sc.run_families(ctx, scs, "reset-suffix", require_done=False)
    # (b) suffix-from-fresh acceptance
    build_harness()
    work = ctx.tmpdir("verif-c08-")
    oc, outdir = runner.run_batch(scs, work)
    items = []
    for s in scs:
        if oc[s["id"]]["status"] not in ("done", "hang"):
            raise Inconclusive("scenario %s: %s" % (s["id"], oc[s["id"]]))
        evs = runner.load_trace(outdir, s["id"])
        suf = traceprep.suffix_after(evs, "RESETDONE")
        if suf is None:
            raise Inconclusive("no reset mark in " + s["id"])
        s2 = copy.deepcopy(s)
        s2["id"] = s["id"] + "-suffix"
        s2["meta"]["begin"] = "afterreset"
        items.append((s2, suf, evs, s))
    import os
    v = tracecheck.validate([(a, b) for a, b, _, _ in items], explain_dir=os.path.join(work, "explain"), max_reject=6)
    if v.error:
        raise Inconclusive("suffix validation failed to run: " + v.error[-2000:])
    if v.timeouts:
        raise Inconclusive("suffix validation did not finish: %s" % v.timeouts[:3])
    log("E3 suffix-from-fresh: %d suffixes, %d accepted, %d rejected" % (len(items), len(v.accepted), len(v.rejected)))
    ctx.coverage["traces_validated_against_impl"] += len(v.accepted)
    ctx.coverage["states"] += v.tlc_states
    ctx.coverage["transitions"] += v.tlc_generated
    ctx.coverage["suffix_from_fresh"] = {"suffixes": len(items), "accepted": len(v.accepted), "rejected": len(v.rejected)}
    byid = {a["id"]: (a, b, c, d) for a, b, c, d in items}
    for sid, idx, unmatched, detail in v.rejected:
        s2, suf, evs, s = byid[sid]
        rd = ctx.replay_dir("suffix-" + s["id"])
        runner._store(rd, ctx.prop, s, evs, extra={"unmatched": unmatched, "line": idx, "mode": "suffix"})
        import shutil
        if detail and os.path.exists(detail):
            shutil.copy(detail, os.path.join(rd, "tlc.txt"))
        what = ("after the reset that ends prefix '%s' the emulator does not behave like a fresh instance in suffix '%s': "
                "no fresh-instance behaviour explains event #%s %s"
                % (s["meta"]["prefix"], s["meta"]["suffix"], (unmatched or {}).get("src"), runner._short(unmatched)))
        kf = ctx.known_matching(lambda m: m.get("kind") == "suffix" and m.get("prefix") == s["meta"]["prefix"]
                                and m.get("suffix") == s["meta"]["suffix"])
        if kf:
            ctx.known_finding(kf, what)
        else:
            ctx.violation(rd, what)
    ctx.coverage["exhaustive"] = False


replay = sc.replay
