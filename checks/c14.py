"""C14 - response size limit is exact and oversize is survivable.

Scenarios (E4): response sizes {0, 1, L/2, L-1, L, L+1, L+4096} and request sizes {L-1, L, L+1, L+4096}
(L = 6 MiB + 100) in every position of a sequence of invocations (first, after ok, after oversize, after
error).  E3 decides: up to L the posted bytes reach the caller (202 to the runtime); above, the runtime
gets 413 and the caller Function.ResponseSizeTooLarge naming both sizes (harness projection), and the same
processes keep serving (no Kill / Exec between the invocations is explainable); oversized events reach
the runtime cut at L.
"""
import itertools
import random

from scen import Scn
import scenario_common as sc

L = 6 * 1024 * 1024 + 100
RESP = [0, 1, L // 2, L - 1, L, L + 1, L + 4096]
REQ = [0, L - 1, L, L + 1, L + 4096]


def one(sid, rnd, steps):
    s = Scn(sid, ext=[], timeout_ms=3000)
    s.meta(family="sizes", steps=steps)
    s.init()
    s.await_exec(kind="rt")
    tag = s.poll("rt")
    for (req, resp, how) in steps:
        it = s.invoke(size=req, seed=rnd.randrange(1, 10 ** 6))
        s.wait(tag)
        if how == "repoll":
            # the runtime asks again before answering: the same invocation, the same (cut) event
            t2 = s.call("rt", "next", async_=True)
            s.wait(t2)
            if resp % 2:
                t3 = s.call("rt", "next", async_=True)
                s.wait(t3)
        if how == "error":
            s.call("rt", "error", id="current", size=200, seed=rnd.randrange(1, 10 ** 6), errType="Function.E")
        elif how == "stream":
            # the runtime declares a streamed response: the emulator buffers it all the same, the limit is the same
            s.call("rt", "response", id="current", size=resp, seed=rnd.randrange(1, 10 ** 6),
                   headers={"Lambda-Runtime-Function-Response-Mode": "streaming"})
        else:
            s.call("rt", "response", id="current", size=resp, seed=rnd.randrange(1, 10 ** 6))
        tag = s.poll("rt")
        s.wait(it)
    return s.done()


def scenarios(ctx):
    rnd = random.Random(ctx.seed * 17 + 14)
    out = []
    n = 0
    # every response size in every position: first / after ok / after oversize / after error
    prefixes = [[], [(5, 10, "ok")], [(5, L + 1, "ok")], [(5, 0, "error")]]
    resp = RESP if not ctx.quick else [0, L - 1, L, L + 1, L + 4096]
    for size in resp:
        for pre in prefixes if not ctx.quick else [prefixes[0], prefixes[2]]:
            n += 1
            out.append(one("c14-%03d" % n, rnd, pre + [(7, size, "ok"), (3, 11, "ok")]))
    for size in ([L, L + 1, L + 4096] if ctx.quick else [0, 1, L - 1, L, L + 1, L + 2, L + 4096, L + 1024 * 1024]):
        n += 1
        out.append(one("c14-%03d" % n, rnd, [(6, size, "stream"), (3, 11, "ok"), (4, 12, "stream")]))
    for size in (REQ if not ctx.quick else [L, L + 1]):
        for pre in prefixes if not ctx.quick else [prefixes[0]]:
            n += 1
            out.append(one("c14-%03d" % n, rnd, pre + [(size, 9, "ok"), (4, 12, "ok")]))
    # an oversized event is cut at the limit on every delivery, also when the runtime polls again before answering
    for size in ([L + 1, L + 4096] if ctx.quick else [L - 1, L, L + 1, L + 2, L + 4096, L + 2 * 1024 * 1024]):
        n += 1
        out.append(one("c14-%03d" % n, rnd, [(size, 9 + (n % 2), "repoll"), (size, 8, "ok"), (5, 11, "repoll")]))
    if not ctx.quick:
        # random walks over sizes drawn around the limit (both directions, by 1 .. 64 KiB) and far from it, error
        # responses of every size class (the limit applies to them too), oversize events and oversize responses mixed
        near = lambda: L + rnd.choice([-1, 1]) * rnd.choice([0, 1, 2, 3, 7, 100, 101, 4095, 4096, 65536])
        for i in range(120):
            steps = []
            for _ in range(rnd.randrange(2, 6)):
                req = rnd.choice([rnd.randrange(0, 4096), near(), rnd.randrange(0, 4096)])
                resp = rnd.choice([rnd.randrange(0, 70000), near(), near(), L + rnd.randrange(1, 2 * 1024 * 1024)])
                steps.append((req, resp, "ok"))
            n += 1
            out.append(one("c14-%03d" % n, rnd, steps + [(3, 11, "ok")]))
    return out


def initerror_scenarios(ctx):
    """the payload of /runtime/init/error around the limit: it is cached and becomes the answer of the next invocation;
    one above the limit reaches the caller as the too-large error (naming both sizes), the emulator stays usable"""
    rnd = random.Random(ctx.seed * 23 + 16)
    out = []
    for i, size in enumerate([L, L + 1] if ctx.quick else [0, 1, L - 1, L, L + 1, L + 4096, 8 * 1024 * 1024]):
        s = Scn("c14-ie%02d" % i, ext=[], timeout_ms=1000, opWaitMs=10000)
        s.meta(family="sizes", initerror=size)
        s.init()
        s.await_exec(kind="rt")
        s.call("rt", "initerror", size=size, seed=rnd.randrange(1, 10 ** 6), errType="Runtime.InitBig")
        s.exit("rt", code=1)
        s.until_ev("Tel", key="kind", val="InitReport")
        it = s.invoke(size=4, seed=1)
        s.wait(it)
        s.recover({})
        out.append(s.done())
    return out


def fe_scenarios(ctx):
    """the same through the HTTP front end: oversize answers must come back as the error document with status 200
    and the next request must be served by the same runtime"""
    rnd = random.Random(ctx.seed * 19 + 15)
    out = []
    sizes = [L, L + 1] if ctx.quick else [0, L - 1, L, L + 1, L + 2, L + 4096, 7 * 1024 * 1024]
    for i, size in enumerate(sizes):
        s = Scn("c14-fe%02d" % i, ext=[], timeout_ms=3000, frontEnd=True, opWaitMs=10000)
        s.meta(family="sizes-frontend", size=size)
        it = s.invoke(size=7, seed=rnd.randrange(1, 10 ** 6))
        s.await_exec(kind="rt")
        t = s.call("rt", "next", async_=True)
        s.wait(t)
        s.call("rt", "response", id="current", size=size, seed=rnd.randrange(1, 10 ** 6))
        tags = {"rt": s.poll("rt")}
        s.wait(it)
        s.round(tags, {})
        out.append(s.done())
    # events around the limit through the front end: an oversized event is cut at the limit and delivered, not refused
    for i, size in enumerate([L, L + 1] if ctx.quick else [L - 1, L, L + 1, L + 4096, 7 * 1024 * 1024]):
        s = Scn("c14-fe-ev%02d" % i, ext=[], timeout_ms=3000, frontEnd=True, opWaitMs=10000)
        s.meta(family="sizes-frontend", event=size)
        it = s.invoke(size=size, seed=rnd.randrange(1, 10 ** 6))
        s.await_exec(kind="rt")
        t = s.call("rt", "next", async_=True)
        s.wait(t)
        s.call("rt", "response", id="current", size=9, seed=rnd.randrange(1, 10 ** 6))
        tags = {"rt": s.poll("rt")}
        s.wait(it)
        s.round(tags, {})
        out.append(s.done())
    # a response of exactly the limit to a caller whose connection stalls while the next caller is served: intact
    import c01
    out.append(dict(c01.fe_stalled("c14-fe-stall", L, "response"), meta={"family": "sizes-frontend", "kind": "stalled-caller", "size": L}))
    return out


def run(ctx):
    ctx.level = "model_checking"
    ctx.assumptions += sc.ASSUME
    sc.run_families(ctx, scenarios(ctx) + initerror_scenarios(ctx), "sizes")
    sc.run_families(ctx, fe_scenarios(ctx), "sizes-frontend")
    ctx.coverage["exhaustive"] = False


replay = sc.replay
