"""C14 - response size limit is exact and oversize is survivable.

Scenarios (E4): response sizes {0, 1, L/2, L-1, L, L+1, L+4096} and request sizes {L-1, L, L+1, L+4096}
(L = 6 MiB + 100) in every position of a sequence of invocations (first, after ok, after oversize, after
error).  E3 decides: up to L the posted bytes reach the caller (202 to the runtime); above, the runtime
gets 413 and the caller Function.ResponseSizeTooLarge naming both sizes (harness projection), and the same
processes keep serving (no Kill / Exec between the invocations is explainable); oversized events reach
the runtime cut at L.
"""
import itertools
import random

from scen import Scn
import scenario_common as sc

L = 6 * 1024 * 1024 + 100
RESP = [0, 1, L // 2, L - 1, L, L + 1, L + 4096]
REQ = [0, L - 1, L, L + 1, L + 4096]


def one(sid, rnd, steps):
    s = Scn(sid, ext=[], timeout_ms=3000)
    s.meta(family="sizes", steps=steps)
    s.init()
    s.await_exec(kind="rt")
    tag = s.poll("rt")
    for (req, resp, how) in steps:
        it = s.invoke(size=req, seed=rnd.randrange(1, 10 ** 6))
        s.wait(tag)
        if how == "error":
            s.call("rt", "error", id="current", size=200, seed=rnd.randrange(1, 10 ** 6), errType="Function.E")
        else:
            s.call("rt", "response", id="current", size=resp, seed=rnd.randrange(1, 10 ** 6))
        tag = s.poll("rt")
        s.wait(it)
    return s.done()


def scenarios(ctx):
    rnd = random.Random(ctx.seed * 17 + 14)
    out = []
    n = 0
    # every response size in every position: first / after ok / after oversize / after error
    prefixes = [[], [(5, 10, "ok")], [(5, L + 1, "ok")], [(5, 0, "error")]]
    resp = RESP if not ctx.quick else [0, L - 1, L, L + 1, L + 4096]
    for size in resp:
        for pre in prefixes if not ctx.quick else [prefixes[0], prefixes[2]]:
            n += 1
            out.append(one("c14-%03d" % n, rnd, pre + [(7, size, "ok"), (3, 11, "ok")]))
    for size in (REQ if not ctx.quick else [L, L + 1]):
        for pre in prefixes if not ctx.quick else [prefixes[0]]:
            n += 1
            out.append(one("c14-%03d" % n, rnd, pre + [(size, 9, "ok"), (4, 12, "ok")]))
    return out


def run(ctx):
    ctx.level = "model_checking"
    ctx.assumptions += sc.ASSUME
    sc.run_families(ctx, scenarios(ctx), "sizes")
    ctx.coverage["exhaustive"] = False


replay = sc.replay
