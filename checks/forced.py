"""Forced schedules (E4 with the verif pause points of /repo, E3 validation as everywhere).

Each scenario drives the real stack into an interleaving that timing alone practically never produces, by
holding one goroutine of the emulator at a named point (harness/stack/hooks.go; call sites `verifAt(...)`
in /repo, compiled only with -tags verif).  The schedules come from TLC counterexamples of spec/MC_Rapid.tla
for the model of the code as it was found (constant AsFound); they are kept as regression scenarios for the
repairs and as the reproduction of the recorded finding.

  watch-late-cancel   F-C08-2 (fixed c1c5023): the events watcher is held between its two steps for the last
                      process of a reset.  As found it had closed the exit channel already: the reset finished
                      and re-armed the flows, the watcher's CancelFlows then cancelled the flows of the fresh
                      generation and the next invocation failed with Sandbox.Failure.
  clear-vs-invoke     F-C03-1 (fixed f15b975): the reset is held at reinitialize(); as found that was after the
                      handler mutex had been released, the queued invoke of the timed-out request started its
                      inline init, was held after SetExternalAgentsRegisterCount, the clear wiped count and
                      agents, and the runtime was launched before the extension had registered.
  ghost-invoke        F-C05-1 (known): the reset goroutine is held between sandbox reset and Server.Clear; the
                      FastInvoke of the timed-out request still finds its reservation and runs a whole
                      initialisation + dispatch for a caller that has been answered already.
  stale-in-flight     (regression for seeded change C02-a) a response / error submission for request 1 has passed the
                      request-id middleware and is held at Server.SendResponse / SendErrorResponse; request 1 times
                      out and is reset, request 2 is dispatched to a new runtime, then the held submission is
                      delivered: it must be refused and must not reach the caller of request 2.
  double-reset        F-C10-3 (fixed): an invocation fails (runtime exit) and, while the reset started by its release
                      goroutine is held before Server.Clear, its timer expires and starts a second reset; the first one
                      completes, a second caller reserves and is dispatched to a new runtime, then the leftover reset
                      completes and releases the second caller's reservation: empty "success" for caller 2.
  late-release        F-C10-4 (fixed 462e73b): the caller of Server.Reset is held after it received the completion message of
                      a timeout reset; a second caller reserves and is dispatched; as found the held caller then called
                      Release once more and dropped the second caller's reservation (empty success for caller 2).
  dispatch-held       (regression for seeded change C04-c) doInvoke is held right before it installs the renderer of the
                      invocation, with the polls of the runtime and of two INVOKE subscribers parked: nobody may be
                      released before the renderer of *this* invocation is in place (else a subscriber renders the previous
                      invocation's event again, or gets 500 on the first one).
  register-vs-close   (regression for seeded change C03-c) the registration of an internal extension is held while its agent
                      object is being constructed; the runtime polls, initialisation completes (registration closed, the
                      agents barrier sized without it) and an invocation is delivered; then the registration continues:
                      it must be refused, and the invocation must not wait for that extension.
  stale-shutdown      F-C05-2 (fixed ef2be96): the FastInvoke goroutine of a request that timed out while waiting for init
                      is held where its init wait ended; the reset completes, the next request is served by a new
                      environment; then the goroutine continues: as found it shut that environment down.
"""
from scen import Scn

FAMILY = "forced-schedule"


def watch_late_cancel(sid, timeout_ms=400):
    subs = {"e1": ["INVOKE"]}
    s = Scn(sid, ext=["e1"], timeout_ms=timeout_ms, opWaitMs=6000)
    s.meta(family=FAMILY, schedule="watch-late-cancel")
    tags = s.boot(subs)
    s.round(tags, subs)
    s.hold("watch.flowsCanceled", 1, skip=1)       # the runtime's exit passes, the extension's is held
    it = s.invoke(size=5, seed=7)
    s.wait(tags["rt"])
    s.wait(tags["ext:e1"])
    s.until_held("watch.flowsCanceled")
    s.sleep(30)
    s.release("watch.flowsCanceled")
    s.wait(it)
    s.sleep(30)
    s.recover(subs)
    return s.done()


def clear_vs_invoke(sid, timeout_ms=400):
    """F-C03-1: a handler queued on the handler mutex while a reset runs must not start before the reset has re-armed
    the context.  Since the repair of F-C05-2 the handler that can be queued there is the ghost of F-C05-1 (the
    FastInvoke of a request whose timer expires right after its initialisation ended), so this schedule also
    exhibits that known finding."""
    subs = {"e1": ["INVOKE"]}
    s = Scn(sid, ext=["e1"], timeout_ms=timeout_ms, opWaitMs=8000)
    s.meta(family=FAMILY, schedule="clear-vs-invoke")
    s.init()
    s.await_exec(base="e1")
    s.register("ext:e1", subs["e1"])
    s.await_exec(kind="rt")
    s.poll("ext:e1")
    s.hold("server.beforeFastInvoke", 1)
    it = s.invoke(size=5, seed=7)
    s.call("rt", "next", async_=True)              # init completes; the request's FastInvoke goroutine is held
    s.until_held("server.beforeFastInvoke")
    s.hold("rapid.reinitialize", 1)
    s.hold("init.afterRegisterCount", 1)
    s.until_held("rapid.reinitialize")             # timeout, reset: everything torn down, about to re-arm
    m = s.mark()
    s.release("server.beforeFastInvoke")           # its invoke queues on the handler mutex ...
    s.sleep(40)                                    # ... (as found: runs, sets the register count, is held)
    s.release("rapid.reinitialize")
    s.wait(it)
    s.sleep(20)
    s.release("init.afterRegisterCount")
    s.expect_exec(base="e1", since=m)              # the re-armed context initialises normally
    s.sleep(60)
    s.register("ext:e1", subs["e1"])               # only now may the runtime be launched
    s.expect_exec(kind="rt", since=m)
    s.sleep(50)
    return s.done()


def ghost_invoke(sid, timeout_ms=400):
    """F-C05-1 as it remains after the repair of F-C05-2: the FastInvoke goroutine of a request whose timer expires
    right when its (successful) initialisation ends still finds the reservation; held before FastInvoke and
    released while the reset goroutine is held before Server.Clear, it runs a complete inline initialisation and
    dispatch for a caller that is about to be answered with the timeout."""
    s = Scn(sid, ext=[], timeout_ms=timeout_ms, opWaitMs=8000)
    s.meta(family=FAMILY, schedule="ghost-invoke")
    s.init()
    s.await_exec(kind="rt")
    s.hold("server.beforeFastInvoke", 1)
    s.hold("server.resetBeforeClear", 1)
    it = s.invoke(size=5, seed=7)
    p0 = s.call("rt", "next", async_=True)          # init completes, the request's FastInvoke goroutine is held
    s.until_held("server.beforeFastInvoke")
    s.until_held("server.resetBeforeClear")        # the timeout reset has torn the environment down
    m = s.mark()
    s.release("server.beforeFastInvoke")           # the reservation is still there: the ghost starts
    s.await_exec(kind="rt", since=m)
    s.sleep(30)
    s.release("server.resetBeforeClear")
    s.wait(it)
    p1 = s.call("rt", "next", async_=True)          # the new runtime is handed the dead request
    s.wait(p1)
    s.call("rt", "response", id="current", body="answer-to-nobody")
    s.sleep(50)
    it2 = s.invoke(size=6, seed=8)                  # and the next genuine request suffers for it
    s.wait(it2)
    return s.done()


def stale_in_flight(sid, api="error", timeout_ms=400):
    s = Scn(sid, ext=[], timeout_ms=timeout_ms, opWaitMs=6000)
    s.meta(family=FAMILY, schedule="stale-in-flight", api=api)
    s.init()
    s.await_exec(kind="rt")
    tags = {"rt": s.poll("rt")}
    s.round(tags, {})
    it = s.invoke(size=5, seed=7)
    s.wait(tags["rt"])
    point = "server.sendErrorResponse" if api == "error" else "server.sendResponse"
    s.hold(point, 1)
    kw = {"errType": "Function.Stale"} if api == "error" else {}
    post = s.call("rt", api, async_=True, id="current", body="stale-answer-of-request-2", **kw)
    s.until_held(point)
    s.wait(it)                      # the invocation times out, reset, the runtime is killed
    m = s.mark()
    it3 = s.invoke(size=6, seed=8)
    s.await_exec(kind="rt", since=m)
    p3 = s.call("rt", "next", async_=True)
    s.wait(p3)
    s.release(point)                # now the stale submission reaches the server
    s.sleep(40)
    s.call("rt", "response", id="current", body="own-answer-of-request-3")
    tags["rt"] = s.poll("rt")
    s.wait(it3)
    s.round(tags, {})
    return s.done()


def stale_failure_record(sid, timeout_ms=400):
    """the runtime crashes during invocation 1; the goroutine that reports the failure (default error answer, then the
    completion record) is held before it gets that far; the invocation times out and is reset; only then is the
    record produced.  It completes invocation 1, which is over: the next invocation must not take it for its own."""
    s = Scn(sid, ext=[], timeout_ms=timeout_ms, opWaitMs=6000)
    s.meta(family=FAMILY, schedule="stale-failure-record")
    s.init()
    s.await_exec(kind="rt")
    tags = {"rt": s.poll("rt")}
    s.round(tags, {})
    s.hold("server.sendErrorResponse", 1)
    it = s.invoke(size=5, seed=7)
    s.wait(tags["rt"])
    s.exit("rt", code=1)
    s.until_held("server.sendErrorResponse")
    s.wait(it)                      # nobody reports the failure: the invocation times out and is reset
    s.release("server.sendErrorResponse")
    s.sleep(40)
    tags = s.recover({})
    s.round(tags, {})
    return s.done()


def stale_slow_body(sid, api="error", timeout_ms=400, size=2000):
    """a submission for request 2 whose headers (and request id) arrive while request 2 is in flight, but whose body is
    only completed - by a helper that outlives the runtime - after request 2 timed out, the environment was reset and
    request 3 was dispatched: it is refused (400) and must not move the new runtime's state"""
    s = Scn(sid, ext=[], timeout_ms=timeout_ms, opWaitMs=6000)
    s.meta(family=FAMILY, schedule="stale-slow-body", api=api)
    s.init()
    s.await_exec(kind="rt")
    tags = {"rt": s.poll("rt")}
    s.round(tags, {})
    it = s.invoke(size=5, seed=7)
    s.wait(tags["rt"])
    s.hold("drv.body:b1", 1)
    kw = {"errType": "Function.Stale"} if api == "error" else {}
    post = s.call("rt", api, async_=True, id="current", size=size, seed=5, headers={"X-Verif-Slow-Body": "b1", "X-Verif-Detached": "1"}, **kw)
    s.until_held("drv.body:b1")
    s.wait(it)                      # the invocation times out, reset, the runtime is killed
    m = s.mark()
    it3 = s.invoke(size=6, seed=8)
    s.await_exec(kind="rt", since=m)
    p3 = s.call("rt", "next", async_=True)
    s.wait(p3)
    s.release("drv.body:b1")        # now the rest of the stale body arrives
    s.wait(post)
    s.call("rt", "response", id="current", body="own-answer-of-request-3")
    tags["rt"] = s.poll("rt")
    s.wait(it3)
    s.round(tags, {})
    return s.done()


def final_release(sid, timeout_ms=1000):
    """invocation 1 is complete (its reservation was released by AwaitRelease) but its Server.Invoke call has not yet
    made its own final Release; caller 2 arrives, reserves and is dispatched; then the final Release of call 1 runs"""
    s = Scn(sid, ext=[], timeout_ms=timeout_ms, opWaitMs=6000)
    s.meta(family=FAMILY, schedule="final-release")
    s.init()
    s.await_exec(kind="rt")
    tags = {"rt": s.poll("rt")}
    s.round(tags, {})
    s.hold("server.beforeFinalRelease", 1)
    i1 = s.invoke(caller=1, size=5, seed=7)
    s.wait(tags["rt"])
    s.call("rt", "response", id="current", body="answer-of-request-2")
    tags["rt"] = s.poll("rt")
    s.until_held("server.beforeFinalRelease")
    i2 = s.invoke(caller=2, size=6, seed=8)
    s.wait(tags["rt"])                          # request 3 is delivered to the runtime
    s.release("server.beforeFinalRelease")
    s.wait(i1)
    s.sleep(30)
    s.call("rt", "response", id="current", body="answer-of-request-3")
    tags["rt"] = s.poll("rt")
    s.wait(i2)
    s.round(tags, {})
    return s.done()


def late_done(sid, kind, timeout_ms=400):
    """the completion message of invocation 2 is held back (its sender is stopped while it builds the message) until
    invocation 2 has timed out, the reset has drained the channel and invocation 3 is being served by a new runtime:
    the late message - success (kind ok) or failure (kind fail: the runtime had exited) - is recognised by its id and
    dropped; invocation 3 completes with its own answer"""
    s = Scn(sid, ext=[], timeout_ms=timeout_ms, opWaitMs=6000)
    s.meta(family=FAMILY, schedule="late-done", kind=kind)
    s.init()
    s.await_exec(kind="rt")
    tags = {"rt": s.poll("rt")}
    s.round(tags, {})
    s.hold("server.stateGetter", 1, skip=1)     # (Reserve asks for the state too: that one passes)
    i2 = s.invoke(size=5, seed=7)
    s.wait(tags["rt"])
    if kind == "ok":
        s.call("rt", "response", id="current", body="answer-of-request-2")
        tags["rt"] = s.poll("rt")
    else:
        s.exit("rt", code=1)
    s.until_held("server.stateGetter")
    s.wait(i2)                          # the timeout expires, reset
    m = s.mark()
    i3 = s.invoke(size=6, seed=8)
    s.await_exec(kind="rt", since=m)
    p3 = s.call("rt", "next", async_=True)
    s.wait(p3)                          # request 3 is with the new runtime
    s.release("server.stateGetter")     # now the completion message of request 2 goes out
    s.sleep(60)
    s.call("rt", "response", id="current", body="answer-of-request-3")
    tags["rt"] = s.poll("rt")
    s.wait(i3)
    s.round(tags, {})
    return s.done()


def double_reset(sid, timeout_ms=400):
    s = Scn(sid, ext=[], timeout_ms=timeout_ms, opWaitMs=8000)
    s.meta(family=FAMILY, schedule="double-reset")
    s.init()
    s.await_exec(kind="rt")
    tags = {"rt": s.poll("rt")}
    s.round(tags, {})
    s.hold("server.resetBeforeClear", 2)
    it = s.invoke(caller=1, size=5, seed=7)
    s.wait(tags["rt"])
    s.sleep(timeout_ms - 100)
    s.exit("rt", code=1)
    s.until_held("server.resetBeforeClear", n=1)
    s.sleep(170)                                   # the timer expires while the first reset is held (as found: a second
    s.release("server.resetBeforeClear")           # reset starts and is held at the same point; repaired: it waits)
    s.sleep(30)
    m = s.mark()
    it2 = s.invoke(caller=2, size=6, seed=8)
    s.await_exec(kind="rt", since=m)
    t = s.call("rt", "next", async_=True)
    s.wait(t)
    s.release("server.resetBeforeClear")
    s.sleep(50)
    s.call("rt", "response", id="current", body="answer-2")
    s.poll("rt")
    s.wait(it2)
    s.wait(it)
    return s.done()


def late_release(sid, timeout_ms=400):
    s = Scn(sid, ext=[], timeout_ms=timeout_ms, opWaitMs=8000)
    s.meta(family=FAMILY, schedule="late-release")
    s.init()
    s.await_exec(kind="rt")
    tags = {"rt": s.poll("rt")}
    s.round(tags, {})
    s.hold("server.resetBeforeRelease", 1)
    it = s.invoke(caller=1, size=5, seed=7)
    s.wait(tags["rt"])
    s.until_held("server.resetBeforeRelease")
    m = s.mark()
    it2 = s.invoke(caller=2, size=6, seed=8)
    s.await_exec(kind="rt", since=m)
    t = s.call("rt", "next", async_=True)
    s.wait(t)
    s.release("server.resetBeforeRelease")
    s.sleep(50)
    s.call("rt", "response", id="current", body="answer-2")
    tags["rt"] = s.poll("rt")
    s.wait(it2)
    s.wait(it)
    s.round(tags, {})
    return s.done()


def dispatch_held(sid, timeout_ms=2000):
    subs = {"e1": ["INVOKE"], "e2": ["INVOKE", "SHUTDOWN"]}
    internal = {"i1": ["INVOKE"]}
    s = Scn(sid, ext=["e1", "e2"], timeout_ms=timeout_ms, opWaitMs=8000)
    s.meta(family=FAMILY, schedule="dispatch-held")
    tags = s.boot(subs, internal)
    listeners = ["ext:e1", "ext:e2", "int:i1"]
    for k in range(3):
        s.hold("invoke.beforeSetRenderer", 1)
        it = s.invoke(size=5 + k, seed=70 + k)
        s.until_held("invoke.beforeSetRenderer", n=k + 1)
        s.sleep(40)
        s.release("invoke.beforeSetRenderer")
        s.wait(tags["rt"])
        for w in listeners:
            s.wait(tags[w])
        s.call("rt", "response", id="current", body="held-%d" % k)
        for w in ["rt"] + listeners:
            tags[w] = s.poll(w)
        s.wait(it)
    return s.done()


def register_vs_close(sid, timeout_ms=2000):
    s = Scn(sid, ext=[], timeout_ms=timeout_ms, opWaitMs=8000)
    s.meta(family=FAMILY, schedule="register-vs-close")
    s.init()
    s.await_exec(kind="rt")
    s.hold("core.newInternalAgent", 1)
    reg = s.call("int:i1", "register", async_=True, events=["INVOKE"])
    s.until_held("core.newInternalAgent")
    tags = {"rt": s.poll("rt")}
    s.until_ev("Tel", key="kind", val="InitReport")
    it = s.invoke(size=5, seed=7)
    s.wait(tags["rt"])
    s.release("core.newInternalAgent")
    s.wait(reg)
    s.call("int:i1", "next")                      # whatever it was told, it is not a party of this invocation
    s.call("rt", "response", id="current", body="first")
    tags["rt"] = s.poll("rt")
    s.wait(it)
    s.round(tags, {})
    return s.done()


def stale_shutdown(sid, timeout_ms=400):
    s = Scn(sid, ext=[], timeout_ms=timeout_ms, opWaitMs=8000)
    s.meta(family=FAMILY, schedule="stale-shutdown")
    s.init()
    s.await_exec(kind="rt")                       # the runtime never polls: init does not complete
    s.hold("server.initWaitFailed", 1)
    it = s.invoke(size=5, seed=7)
    s.until_held("server.initWaitFailed")         # timeout, reset, init ended by the reset
    s.wait(it)
    tags = s.recover({})
    s.release("server.initWaitFailed")
    s.sleep(80)
    s.round(tags, {})
    return s.done()


def scenarios(prefix, which=("watch-late-cancel", "clear-vs-invoke", "ghost-invoke")):
    out = []
    mk = {"watch-late-cancel": watch_late_cancel, "clear-vs-invoke": clear_vs_invoke, "ghost-invoke": ghost_invoke,
          "double-reset": double_reset,
          "late-release": late_release,
          "dispatch-held": dispatch_held,
          "register-vs-close": register_vs_close,
          "stale-shutdown": stale_shutdown,
          "stale-failure-record": stale_failure_record,
          "final-release": final_release,
          "late-done-ok": lambda sid: late_done(sid, "ok"),
          "late-done-fail": lambda sid: late_done(sid, "fail"),
          "stale-error-slow-body": lambda sid: stale_slow_body(sid, "error"),
          # ... and a stale /response above the size limit: refused for its id, whatever its size
          "stale-response-slow-big": lambda sid: stale_slow_body(sid, "response", size=6 * 1024 * 1024 + 100 + 5000),
          "stale-error-in-flight": lambda sid: stale_in_flight(sid, "error"),
          "stale-response-in-flight": lambda sid: stale_in_flight(sid, "response")}
    for i, w in enumerate(which):
        out.append(mk[w]("%s-fs%d-%s" % (prefix, i + 1, w)))
    return out
