"""C03 - init barrier: nobody is served before everyone has arrived.

Scenarios (E4): 0..3 external extension files (plus directory entries that must not be launched) and
0..2 internal extensions with random subscription sets; the register / next calls of all parties and the
first invocation arrive in a random order consistent with causality (seeded; thorough: many more orders);
one party is held back; a late registration after the first delivery must be refused.  E3 decides:
an Exec of the runtime before the last external registration, an Exec of a directory entry, a second
Exec of a file, an INVOKE delivered before every accepted party polled, or an accepted late registration
leave the trace unexplained; if everybody arrives and the invocation is not served, the strict timer
rule rejects the timeout.
"""
import random

from scen import Scn
import scenario_common as sc
import mcrapid
import forced

SUBSETS = [[], ["INVOKE"], ["SHUTDOWN"], ["INVOKE", "SHUTDOWN"]]


def one(sid, rnd, nx, ni, with_dir, hold, invoke_pos, lat=0, dot=False):
    exts = ["e%d" % (i + 1) for i in range(nx)]
    if dot and exts:
        exts[0] = ".e0"     # every non-directory entry is an extension, whatever its name (first in directory order)
    files = list(exts) + ([("f1", "dir")] if with_dir else [])
    subs = {e: rnd.choice(SUBSETS) for e in exts}
    ints = {"i%d" % (i + 1): rnd.choice([[], ["INVOKE"]]) for i in range(ni)}
    # lat: Exec returns this long after the process has started, so that an extension registers while the
    # launch loop of doInitExtensions is still running (its own Exec or a sibling's has not returned yet)
    s = Scn(sid, ext=files, execLatencyMs=lat)
    s.meta(family="initbarrier", subs=subs, internal=ints, hold=hold, execLatencyMs=lat)
    # arrival actions with their dependencies
    acts = []
    for e in exts:
        acts.append(("R", "ext:" + e))
        acts.append(("N", "ext:" + e))
    for i in ints:
        acts.append(("R", "int:" + i))
        acts.append(("N", "int:" + i))
    acts.append(("N", "rt"))

    def ready(a, done):
        kind, who = a
        if kind == "N" and who != "rt":
            return ("R", who) in done
        if kind == "N" and who == "rt":
            return all(("R", "ext:" + e) in done for e in exts)
        if kind == "R" and who.startswith("int:"):
            # an internal extension registers from inside the runtime process in practice; any time is legal
            return True
        return True

    order = []
    done = set()
    pending = list(acts)
    while pending:
        cands = [a for a in pending if ready(a, done)]
        a = rnd.choice(cands)
        pending.remove(a)
        done.add(a)
        order.append(a)
    if hold is not None:
        held = order[hold % len(order)]
        # move the held-back arrival (and everything depending on it) to the end
        dep = [held] + [a for a in order if a != held and not _independent(a, held, exts)]
        order = [a for a in order if a not in dep] + ["HOLD"] + [a for a in order if a in dep]
    pos = invoke_pos % (len(order) + 1)
    order.insert(pos, "INVOKE")
    s.init()
    # (nobody can talk to the emulator before the init request has been taken up: the function metadata echoed by a
    #  registration is set there)
    s.until_ev("Tel", key="kind", val="InitStart")
    tags = {}
    inv = None
    execd = set()
    for a in order:
        if a == "INVOKE":
            inv = s.invoke(size=4, seed=9)
            continue
        if a == "HOLD":
            s.sleep(60)
            continue
        kind, who = a
        if who.startswith("ext:") and who not in execd:
            s.await_exec(base=who[4:])
            execd.add(who)
        if who == "rt":
            s.await_exec(kind="rt")
        if kind == "R":
            name = who[4:]
            s.register(who, subs[name] if who.startswith("ext:") else ints[name])
        else:
            tags[who] = s.poll(who)
    # everybody arrived: the invocation is served
    s.wait(tags["rt"])
    for w in tags:
        if w != "rt" and "INVOKE" in (subs.get(w[4:]) if w.startswith("ext:") else ints.get(w[4:])):
            s.wait(tags[w])
    # registration is closed once the first invocation has been delivered
    s.register("int:late", ["INVOKE"])
    s.call("rt", "response", id="current", body="ok")
    tags["rt"] = s.poll("rt")
    for w in list(tags):
        if w != "rt" and "INVOKE" in (subs.get(w[4:]) if w.startswith("ext:") else ints.get(w[4:])):
            tags[w] = s.poll(w)
    s.wait(inv)
    return s.done()


def second_generation(sid, rnd, nx, ni, trigger, held_kind):
    """the same barrier in a later generation: the invocation after a reset (timeout / runtime exit) initialises the
    environment again inline; one party (an extension's or the runtime's poll) is held back - nobody is served
    before it has arrived"""
    exts = ["e%d" % (i + 1) for i in range(nx)]
    subs = {e: rnd.choice([["INVOKE"], ["INVOKE"], []]) for e in exts}
    ints = {"i%d" % (i + 1): ["INVOKE"] for i in range(ni)}
    s = Scn(sid, ext=exts, timeout_ms=500, opWaitMs=6000, onTerm={e: "exit" for e in exts})
    s.meta(family="initbarrier", kind="second-generation", subs=subs, internal=ints, trigger=trigger, held=held_kind)
    tags = s.boot(subs)
    s.round(tags, subs)
    it = s.invoke(size=4, seed=1)
    s.wait(tags["rt"])
    for e in exts:
        if "INVOKE" in subs[e]:
            s.wait(tags["ext:" + e])
    if trigger == "crash":
        s.exit("rt", code=1)
    s.wait(it)
    # ---- second generation
    m = s.mark()
    it = s.invoke(size=6, seed=2)
    parties = ["ext:" + e for e in exts] + ["int:" + i for i in ints]
    held = "rt" if held_kind == "rt" or not parties else rnd.choice(parties)
    for e in exts:
        s.await_exec(base=e, since=m)
        s.register("ext:" + e, subs[e])
    s.await_exec(kind="rt", since=m)
    for i in ints:
        s.register("int:" + i, ints[i])
    # a late request of the previous generation (its identifier) is refused: it is nobody's arrival
    for e in exts:
        s.call("ext:" + e, "next", id="old")
    tags = {}
    order = [w for w in parties + ["rt"] if w != held]
    rnd.shuffle(order)
    for w in order:
        tags[w] = s.poll(w)
    s.sleep(rnd.choice([60, 120]))
    tags[held] = s.poll(held)
    listeners = [w for w in parties if "INVOKE" in (subs.get(w[4:]) if w.startswith("ext:") else ints.get(w[4:]))]
    s.wait(tags["rt"])
    for w in listeners:
        s.wait(tags[w])
    s.call("rt", "response", id="current", body="second-generation")
    for w in ["rt"] + listeners:
        tags[w] = s.poll(w)
    s.wait(it)
    return s.done()


def second_generation_scenarios(ctx):
    rnd = random.Random(ctx.seed * 31 + 3)
    out = []
    n = 0
    for nx, ni in ((1, 0), (2, 0), (1, 1), (0, 1)) if ctx.quick else ((1, 0), (2, 0), (3, 0), (1, 1), (0, 1), (2, 1), (0, 2)):
        for trigger in ("timeout", "crash"):
            for held_kind in ("agent", "rt"):
                n += 1
                out.append(second_generation("c03-g2-%02d" % n, rnd, nx, ni, trigger, held_kind))
    return out


def _independent(a, held, exts):
    """does arrival a not depend on the held-back arrival?"""
    kind, who = a
    hk, hw = held
    if who == hw and hk == "R" and kind == "N":
        return False
    if hk == "R" and hw.startswith("ext:") and a == ("N", "rt"):
        return False
    return True


def init_error_held(sid, kind):
    """a registered extension reports an init error and then just stays there, never asking for its next event: it has
    not arrived, so initialisation does not complete and the pending invocation is not delivered (it times out)"""
    exts = ["e1", "e2"] if kind == "ext" else ["e2"]
    s = Scn(sid, ext=exts, timeout_ms=600, opWaitMs=6000, onTerm={"e1": "exit", "e2": "exit"})
    s.meta(family="initbarrier", kind="init-error-held", who=kind)
    s.init()
    for e in exts:
        s.await_exec(base=e)
        s.register("ext:" + e, ["INVOKE"])
    s.await_exec(kind="rt")
    victim = "ext:e1" if kind == "ext" else "int:i1"
    if kind == "int":
        s.register("int:i1", ["INVOKE"])
    s.call(victim, "exterror", which="init", errType="Extension.ConfigInvalid")
    s.poll("ext:e2")
    s.poll("rt")
    it = s.invoke(size=4, seed=9)
    s.wait(it)
    s.recover({e: ["INVOKE"] for e in exts})
    return s.done()


def scenarios(ctx):
    rnd = random.Random(ctx.seed)
    out = []
    n = 0
    reps = 6 if ctx.quick else 40
    for nx in range(0, 4):
        for ni in range(0, 3):
            for r in range(reps):
                n += 1
                hold = rnd.randrange(0, 20) if r % 2 == 1 else None
                out.append(one("c03-%03d" % n, rnd, nx, ni, with_dir=(r % 2 == 0), hold=hold, invoke_pos=rnd.randrange(0, 20),
                               lat=30 if r % 3 == 2 else 0, dot=(r % 4 == 3)))
    return out


def run(ctx):
    ctx.level = "model_checking"
    # E1: the property predicates as invariants of the composite (spec/MC_Rapid.tla)
    mcrapid.check(ctx, ['RuntimeAfterRegistrations', 'NoEventBeforeAllNext'], extra_configs=('internal',) if ctx.quick else ('internal', 'internal2'))
    # forced schedules through the pause points of /repo (-tags verif)
    sc.run_families(ctx, forced.scenarios('c03', ('clear-vs-invoke', 'register-vs-close')), "forced-schedule")
    ctx.assumptions += sc.ASSUME
    sc.run_families(ctx, scenarios(ctx) + [init_error_held("c03-ieh1", "ext"), init_error_held("c03-ieh2", "int")]
                    + second_generation_scenarios(ctx), "initbarrier")
    ctx.coverage["exhaustive"] = False


replay = sc.replay
