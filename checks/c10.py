"""C10 - at most one invocation in flight; extra callers are refused harmlessly.

Scenarios (E4): a second (and third) caller enters Server.Invoke at every phase of the first invocation:
while init is still running, after the runtime received the event, after the response while an extension
is still finishing, during the timeout reset, right after completion; then a further sequential invocation.
E3 decides: the extra caller's outcome must be the reservation refusal, the in-flight invocation and the
following one must proceed as the specification says; a crash of the emulator process is reported directly.
"""
import random

from scen import Scn
import scenario_common as sc
import mcrapid
import forced

PHASES = ["init", "dispatched", "responded", "reset", "slowreset", "failreset", "done"]


def one(sid, phase, third, with_ext):
    if with_ext == "int":
        return one_internal(sid, phase, third)
    subs = {"e1": ["INVOKE"]} if with_ext else {}
    if phase in ("slowreset", "failreset"):
        # an extension that ignores its SHUTDOWN event keeps the reset running until the 2 s deadline
        subs = {"e1": ["INVOKE", "SHUTDOWN"]}
    s = Scn(sid, ext=list(subs), timeout_ms=400, onTerm={"e1": "ignore" if phase in ("slowreset", "failreset") else "exit"})
    s.meta(family="second-caller", phase=phase)
    s.init()
    for n in subs:
        s.await_exec(base=n)
        s.register("ext:" + n, subs[n])
    s.await_exec(kind="rt")
    tags = {}

    def extra():
        t2 = s.invoke(caller=2, size=3, seed=77)
        t3 = s.invoke(caller=3, size=3, seed=78) if third else None
        s.wait(t2)
        if t3:
            s.wait(t3)

    if phase == "init":
        i1 = s.invoke(caller=1, size=4, seed=1)
        s.sleep(3)
        extra()
        for n in subs:
            tags["ext:" + n] = s.poll("ext:" + n)
        tags["rt"] = s.poll("rt")
        s.wait(tags["rt"])
    else:
        for n in subs:
            tags["ext:" + n] = s.poll("ext:" + n)
        tags["rt"] = s.poll("rt")
        i1 = s.invoke(caller=1, size=4, seed=1)
        s.wait(tags["rt"])
    for n in subs:
        s.wait(tags["ext:" + n])
    if phase == "dispatched":
        extra()
    if phase == "reset":
        # the runtime never answers: the timer fires, the second caller arrives during the reset
        s.sleep(405)
        extra()
        s.wait(i1)
    elif phase in ("slowreset", "failreset"):
        if phase == "failreset":
            s.exit("rt", code=1)        # the invocation fails: Reset("ReleaseFail")
        # wait until the reset has told the extension to shut down, then the extra callers arrive
        s.until_ev("NextRet", actor="ext:e1", key="kind", val="SHUTDOWN") if False else None
        s.until_ev("Terminate" if phase == "slowreset" else "KillCall", n=1) if phase == "slowreset" else s.sleep(60)
        s.sleep(50)
        extra()
        s.sleep(300)
        extra()
        s.wait(i1)
    else:
        s.call("rt", "response", id="current", body="one")
        tags["rt"] = s.poll("rt")
        if phase == "responded" and with_ext:
            extra()
        for n in subs:
            tags["ext:" + n] = s.poll("ext:" + n)
        s.wait(i1)
        if phase == "done" or (phase == "responded" and not with_ext):
            extra_t = s.invoke(caller=2, size=2, seed=5)
            s.wait(tags["rt"])
            for n in subs:
                s.wait(tags["ext:" + n])
            s.call("rt", "response", id="current", body="two")
            tags["rt"] = s.poll("rt")
            for n in subs:
                tags["ext:" + n] = s.poll("ext:" + n)
            s.wait(extra_t)
    return s.done()


def one_internal(sid, phase, third):
    """the only extension is an internal one (it registers from inside the runtime process) subscribed to INVOKE:
    the invocation is in flight until that extension has polled again, too"""
    s = Scn(sid, ext=[], timeout_ms=400)
    s.meta(family="second-caller", phase=phase, ext="internal")
    s.init()
    s.await_exec(kind="rt")
    s.register("int:i1", ["INVOKE"])
    tags = {"int:i1": s.poll("int:i1"), "rt": s.poll("rt")}
    i1 = s.invoke(caller=1, size=4, seed=1)
    s.wait(tags["rt"])
    s.wait(tags["int:i1"])

    def extra():
        t2 = s.invoke(caller=2, size=3, seed=77)
        t3 = s.invoke(caller=3, size=3, seed=78) if third else None
        s.wait(t2)
        if t3:
            s.wait(t3)

    if phase == "dispatched":
        extra()
    s.call("rt", "response", id="current", body="one")
    tags["rt"] = s.poll("rt")
    if phase == "responded":
        s.sleep(60)         # the extension is still busy with the event: the invocation is not over
        extra()
    tags["int:i1"] = s.poll("int:i1")
    s.wait(i1)
    s.round(tags, {}, {"i1": ["INVOKE"]})
    return s.done()


def one_responding(sid, third, stall_ms=1300, chunked=False):
    """the second caller arrives while the runtime is still sending the body of its answer (the upload stalls for a
    while): it is refused at once all the same, and the first invocation completes when the body has arrived"""
    s = Scn(sid, ext=[], timeout_ms=4000, opWaitMs=9000)
    s.meta(family="second-caller", phase="responding", stall=stall_ms)
    tags = s.boot({})
    i1 = s.invoke(caller=1, size=4, seed=1)
    s.wait(tags["rt"])
    s.hold("drv.body:r1", 1)
    hdr = {"X-Verif-Slow-Body": "r1"}
    if chunked:
        hdr["X-Verif-Chunked"] = "1"        # the length of the body is not declared
    post = s.call("rt", "response", async_=True, id="current", size=3000, seed=9, headers=hdr)
    s.until_held("drv.body:r1")
    s.sleep(30)
    t2 = s.invoke(caller=2, size=3, seed=77)
    t3 = s.invoke(caller=3, size=3, seed=78) if third else None
    s.sleep(stall_ms)
    s.release("drv.body:r1")
    s.wait(post)
    s.wait(t2)
    if t3:
        s.wait(t3)
    tags["rt"] = s.poll("rt")
    s.wait(i1)
    s.round(tags, {})
    return s.done()


def scenarios(ctx):
    out = []
    n = 0
    out.append(one_responding("c10-responding1", False))
    out.append(one_responding("c10-responding2", True))
    out.append(one_responding("c10-responding3", False, chunked=True))
    for phase in PHASES:
        for third in (False, True):
            for with_ext in (False, True) + (("int",) if phase in ("dispatched", "responded") else ()):
                n += 1
                out.append(one("c10-%02d-%s" % (n, phase), phase, third, with_ext))
    if not ctx.quick:
        out = out * 1
    return out


def fe_scenarios(ctx):
    """second callers at the HTTP front end (cmd/aws-lambda-rie InvokeHandler): requests arriving together on a fresh
    emulator (the sandbox must be initialised once, F-C10-2), a second request during the cold start, in flight,
    and while the first one is being timed out"""
    out = []
    reps = 6 if ctx.quick else 30
    for i in range(reps):
        s = Scn("c10-fe-first%02d" % i, ext=[], timeout_ms=1000, frontEnd=True, opWaitMs=6000)
        s.meta(family="frontend-second", phase="together")
        a = s.invoke(caller=1, size=3, seed=1 + i)
        b = s.invoke(caller=2, size=3, seed=100 + i)
        if i % 2:
            c = s.invoke(caller=3, size=3, seed=200 + i)
        s.await_exec(kind="rt")
        t = s.call("rt", "next", async_=True)
        s.wait(t)
        s.call("rt", "response", id="current", body="answer-%d" % i)
        tags = {"rt": s.poll("rt")}
        s.wait(a)
        s.wait(b)
        if i % 2:
            s.wait(c)
        s.round(tags, {})
        out.append(s.done())
    for i, phase in enumerate(["cold", "inflight", "timing-out"]):
        s = Scn("c10-fe-%s" % phase, ext=[], timeout_ms=1000, frontEnd=True, opWaitMs=8000)
        s.meta(family="frontend-second", phase=phase)
        a = s.invoke(caller=1, size=5, seed=7)
        s.await_exec(kind="rt")
        if phase == "cold":
            s.invoke(async_=False, caller=2, size=5, seed=8)      # the runtime has not polled yet
        t = s.call("rt", "next", async_=True)
        s.wait(t)
        if phase == "inflight":
            s.invoke(async_=False, caller=2, size=5, seed=8)
        if phase == "timing-out":
            s.sleep(990)
            b = s.invoke(caller=2, size=5, seed=8)                # around the expiry of the first one
            s.wait(a)
            s.wait(b)
            s.recover({})
        else:
            s.call("rt", "response", id="current", body="first")
            tags = {"rt": s.poll("rt")}
            s.wait(a)
            s.round(tags, {})
        out.append(s.done())
    return out


def run(ctx):
    ctx.level = "model_checking"
    sc.frontend_model(ctx)
    # E1: the property predicates as invariants of the composite (spec/MC_Rapid.tla)
    mcrapid.check(ctx, ['NoCrash', 'StreamOwnerIsReserver', 'OkHasBody', 'NoGhostInvoke'], extra_configs=('two',) if ctx.quick else ('two', 'twox'))
    ctx.assumptions += sc.ASSUME
    sc.run_families(ctx, scenarios(ctx), "second-caller")
    sc.run_families(ctx, fe_scenarios(ctx), "frontend-second")
    sc.run_families(ctx, forced.scenarios('c10', ('double-reset', 'late-release', 'final-release', 'late-done-ok', 'late-done-fail')), "forced-schedule")
    ctx.coverage["exhaustive"] = False


replay = sc.replay
