"""C19 - local supervisor: one truthful exit event per process, kill means gone.

E1  TLC on spec/Supervisor.tla (two processes, every behaviour; AtMostOneEvent, EventOnlyAfterDeath,
    DeadStaysDead, EveryDeathReported under fairness of event delivery).
E3  black-box traces of the real supervisor.LocalSupervisor with /bin/sh children {exit 0, exit 3, killed by
    a signal it raises, traps TERM, ignores TERM, forks children, forks and ignores TERM}, seeded random
    concurrent Exec / Terminate / Kill (future and past deadlines, unknown names, repeated kills) / natural
    exits for 2-4 processes at once; ground truth for "gone" from pid files and /proc.  TLC checks every
    trace against spec/Trace_Supervisor.tla: exactly one event per process with the status its cause of
    death implies, Kill succeeds only when the process and its children are gone, succeeds for exited
    processes, fails for unknown names and past deadlines, Terminate returns without waiting.
    The same trace specification validates the harness's fake supervisor (the contract all other checks
    assume).
"""
import json
import os
import re
import shutil

import tlc
import traceprep
from common import Inconclusive, build_harness, run_vh, log


def project(raw, fake):
    out = []
    keep = {"Begin", "ExecCall", "ExecRet", "TermCall", "TermRet", "TermObs", "KillCall", "KillRet", "Event", "End"}
    for ev in raw:
        k = ev.get("ev")
        if k not in keep or (ev.get("actor") == "sup" and k != "Event"):
            continue        # the fake supervisor's own records (Exec, ProcExit, ...) are not part of the contract trace
        o = {"e": k, "t": ev.get("t", 0), "name": ev.get("name", ""), "beh": ev.get("beh", ""), "delay": ev.get("delayMs", 0),
             "err": ev.get("err", ""), "past": bool(ev.get("past", False)), "gone": bool(ev.get("gone", True)),
             "status": ev.get("status", ""), "dur": ev.get("durMs", 0), "fake": fake, "src": ev.get("seq", 0)}
        out.append(o)
    return out


def validate(events, timeout=120):
    scratch = tlc.make_scratch("verif-supv-")
    traceprep.write_ndjson(os.path.join(scratch, "trace.ndjson"), events)
    r = tlc.run_tlc("Trace_Supervisor", "Trace_Supervisor.cfg", workers=1, timeout=timeout, scratch=scratch, dfs=True, heap="2g")
    shutil.rmtree(scratch, ignore_errors=True)
    hws = [int(x) for x in re.findall(r'"hw", (\d+)', r.out)]
    hw = max(hws) if hws else 1
    return r, hw


def run_kind(ctx, fake, reps, tag):
    work = ctx.tmpdir("verif-c19-")
    args = ["supv", "-out", work, "-seed", str(ctx.seed), "-reps", str(reps)]
    if fake:
        args.append("-fake")
    p = run_vh(args, timeout=900)
    if p.returncode != 0:
        raise Inconclusive("supv driver failed: %s" % p.stderr[-1500:])
    acc = 0
    states = gen = nev = 0
    samples = []
    for k in range(reps):
        raw = traceprep.load_ndjson(os.path.join(work, "%d.ndjson" % k))
        evs = project(raw, fake)
        r, hw = validate(evs)
        states += r.distinct
        gen += r.generated
        nev += len(evs)
        if r.error and hw < len(evs) + 1:
            raise Inconclusive("trace validation failed to run: %s" % r.error)
        if hw >= len(evs) + 1:
            acc += 1
            if len(samples) < 1:
                samples.append([{"ev": e["e"], "name": e["name"], "beh": e["beh"], "err": e["err"], "status": e["status"]} for e in evs[:14]])
            continue
        un = evs[hw - 1] if hw - 1 < len(evs) else None
        rd = ctx.replay_dir("%s-%d" % (tag, k))
        traceprep.write_ndjson(os.path.join(rd, "trace.ndjson"), raw)
        with open(os.path.join(rd, "replay.json"), "w") as f:
            json.dump({"property": "C19", "engine": "supv", "fake": fake, "unmatched": un, "seed": ctx.seed, "index": k}, f, indent=1)
        hist = [x for x in evs[:hw] if x["name"] == (un or {}).get("name")]
        what = "%s supervisor: no behaviour of the supervisor contract explains event #%s %s (history of that process: %s)" % (
            "fake" if fake else "local", (un or {}).get("src"), json.dumps({k2: v for k2, v in (un or {}).items() if v not in ("", 0, False)}),
            " ".join("%s%s" % (x["e"], ("(" + (x["beh"] or x["err"] or x["status"]) + ")") if (x["beh"] or x["err"] or x["status"]) else "") for x in hist[-8:]))
        if fake:
            raise Inconclusive("the harness's fake supervisor violates the contract: " + what)
        ctx.violation(rd, what)
    log("E3 %s supervisor: %d traces, %d accepted, %d events" % ("fake" if fake else "local", reps, acc, nev))
    return acc, states, gen, nev, samples


def run(ctx):
    ctx.level = "model_checking"
    build_harness()
    r = tlc.run_tlc("Supervisor", "MC_Supervisor.cfg", timeout=600)
    ctx.add_tlc(r, "MC_Supervisor.cfg")
    if r.violation:
        raise Inconclusive("Supervisor.tla violates %s" % r.violation)
    log("E1 Supervisor: %d distinct states, depth %d" % (r.distinct, r.depth))
    reps = 24 if ctx.quick else 240
    a1, s1, g1, n1, samples = run_kind(ctx, False, reps, "local")
    a2, s2, g2, n2, _ = run_kind(ctx, True, max(6, reps // 4), "fake")
    ctx.coverage.update({
        "states": ctx.coverage.get("states", 0) + s1 + s2,
        "transitions": ctx.coverage.get("transitions", 0) + g1 + g2,
        "traces_validated_against_impl": a1,
        "fake_supervisor_traces_validated": a2,
        "evaluations": reps,
        "distinct_nontrivial": a1,
        "rule": "one trace = one seeded random concurrent program of 2-4 real /bin/sh children on supervisor.LocalSupervisor",
        "trace_events_validated": n1 + n2,
        "samples": samples,
        "exhaustive": False,
    })
    ctx.assumptions += ["'gone' is read from pid files written by the children and from /proc (a zombie counts as gone)",
                        "statuses: /bin/sh (dash) semantics for traps and signals; SIGTERM on a shell without trap terminates it by signal 15"]


def replay(ctx, d, meta):
    build_harness()
    raw = traceprep.load_ndjson(os.path.join(d, "trace.ndjson"))
    # the stored trace documents what happened; the program is re-run with the same seed
    sub = type(ctx)(ctx.prop, "quick", meta.get("seed", 1))
    ctx.seed = meta.get("seed", 1)
    a, s, g, n, _ = run_kind(ctx, bool(meta.get("fake")), int(meta.get("index", 0)) + 1, "replay")
    ctx.coverage.update({"states": max(s, 1), "transitions": max(g, 1), "traces_validated_against_impl": a, "samples": [meta.get("unmatched")]})
