"""C20 - client-supplied error metadata is sanitised and bounded.

E1  spec/Sanitize.tla transcribes (a) the error-type grammar over symbol classes (all sequences up to a
    bounded length), (b) the decision structure of the X-Ray error cause (document class x recognised fields
    x size class x escape class), (c) the budget arithmetic of the runtime identity string; TLC enumerates
    every abstract case with its expected classification.
E2  each abstract case is concretised (seeded random representatives per symbol class incl. non-ASCII and
    control characters; documents of 100 B / 40 KiB / 1.5 MiB with quote-, control- and multi-byte-heavy
    strings; user agents and feature lists with the given lengths) and pushed through the real functions;
    the replayer's projection computes {valid JSON, length, fields are prefixes}; the specification says
    which values are legal.
"""
import json
import os
import re

import tlc
import tlaparse
from common import Inconclusive, build_harness, run_vh, log


def cases_from_dump(path):
    text = open(path).read()
    out = []
    for block in re.split(r"\nState \d+:\n", "\n" + text):
        block = block.strip()
        if not block:
            continue
        st = tlaparse.to_jsonable(tlaparse.parse_state(block))
        out.append({"c": st["c"], "exp": st["exp"]})
    return out


def run(ctx):
    ctx.level = "model_checking"
    build_harness()
    cfg = "MC_Sanitize.cfg" if ctx.quick else "MC_Sanitize_thorough.cfg"
    r = tlc.run_tlc("Sanitize", cfg, timeout=1500, extra_args=["-dump", "states"], keep=True)
    ctx._tmp.append(r.scratch)
    ctx.add_tlc(r, cfg)
    if r.violation:
        raise Inconclusive("Sanitize.tla violates %s: the transcription is wrong" % r.violation)
    cases = cases_from_dump(os.path.join(r.scratch, "states.dump"))
    if len(cases) != r.distinct:
        raise Inconclusive("parsed %d cases, TLC found %d states" % (len(cases), r.distinct))
    cf = os.path.join(r.scratch, "cases.json")
    with open(cf, "w") as f:
        json.dump(cases, f)
    rp = os.path.join(r.scratch, "report.json")
    p = run_vh(["sanitize", "-in", cf, "-out", rp, "-seed", str(ctx.seed), "-reps", "2" if ctx.quick else "4"], timeout=2400)
    if p.returncode != 0 or not os.path.exists(rp):
        raise Inconclusive("sanitize driver failed: rc=%s %s" % (p.returncode, p.stderr[-2000:]))
    rep = json.load(open(rp))
    log("E1 Sanitize: %d abstract cases %s; E2: %d concrete inputs (%d cause cases also through the handlers of the full stack), %d mismatches"
        % (r.distinct, rep["by_part"], rep["concrete_inputs"], rep.get("fullstack_cases", 0), len(rep.get("mismatches") or [])))
    ctx.coverage["fullstack_cause_cases"] = rep.get("fullstack_cases", 0)
    if not rep.get("fullstack_cases"):
        raise Inconclusive("no cause case went through the full stack")
    seen = set()
    for i, m in enumerate(rep.get("mismatches") or []):
        key = (m["part"], re.sub(r"[0-9]+", "N", m["what"])[:60])
        if key in seen:
            continue
        seen.add(key)
        rd = ctx.replay_dir("sanitize-%d" % i)
        with open(os.path.join(rd, "cases.json"), "w") as f:
            json.dump([cases[m["case"]]], f)
        with open(os.path.join(rd, "replay.json"), "w") as f:
            json.dump({"property": "C20", "engine": "sanitize", "mismatch": m, "seed": ctx.seed}, f, indent=1)
        what = "%s: %s (abstract case %s)" % (m["part"], m["what"][:300], json.dumps(cases[m["case"]]["c"])[:200])
        kf = ctx.known_matching(lambda mm: mm.get("part") == m["part"] and mm.get("what_contains", "\0") in m["what"])
        if kf:
            ctx.known_finding(kf, what)
        else:
            ctx.violation(rd, what)
    ctx.coverage.update({
        "traces_validated_against_impl": rep["concrete_inputs"],
        "evaluations": rep["concrete_inputs"],
        "distinct_nontrivial": rep["cases"],
        "rule": "one abstract case = one state of Sanitize.tla; each is concretised into seeded random inputs for the real function",
        "exhaustive": True,
        "by_part": rep["by_part"],
        "samples": rep.get("samples") or [cases[0]],
    })
    ctx.assumptions += ["JSON validity, byte lengths and prefix relations are computed by the replayer's projection",
                        "symbol classes are represented by seeded random members; exhaustiveness is over classes, not over bytes"]


def replay(ctx, d, meta):
    build_harness()
    rp = os.path.join(d, "report.rerun.json")
    p = run_vh(["sanitize", "-in", os.path.join(d, "cases.json"), "-out", rp, "-seed", str(meta.get("seed", 1)), "-reps", "8"], timeout=300)
    rep = json.load(open(rp))
    ctx.coverage.update({"states": 1, "transitions": 1, "traces_validated_against_impl": rep["concrete_inputs"], "samples": [meta.get("mismatch")]})
    for m in rep.get("mismatches") or []:
        ctx.violation(d, "%s: %s" % (m["part"], m["what"][:300]))
        break
