"""C09 - shutdown choreography: TERM before KILL, one SHUTDOWN event, all reaped.

Scenarios (E4): runtime {exits on TERM, ignores TERM, already exited, never started} x each of 0..2
extensions {subscribed & exits on the event, subscribed & ignores it, subscribed & not polling,
unsubscribed, already exited, failed to launch} x trigger {timeout reset, failure reset, explicit reset,
shutdown} (feasible combinations; quick: stratified sample).  E3 with millisecond stamps: no agents ->
Kill(runtime) at once; otherwise Terminate(runtime) first and Kill(runtime) only after 30% of the time
available; every SHUTDOWN subscriber polls one SHUTDOWN event with the reason; Kill of a subscriber not
before the deadline, of others at once; the operation returns after all exit notifications (or the 2 s
grace) and within deadline + grace + slack.
"""
import itertools
import random

from scen import Scn
import scenario_common as sc
import mcrapid

RT = ["exits", "ignores", "exited", "neverstarted"]
EXT = ["sub-exits", "sub-ignores", "sub-notpolling", "unsub", "exited", "launchfail"]
TRIG = ["timeout", "failure", "reset", "shutdown"]


def feasible(rt, exts, trig):
    # the runtime is never started iff some extension does not register: modelled by a launch failure
    # or by holding back the registration of the last extension
    if trig == "failure" and rt in ("neverstarted",):
        return False
    if trig == "failure" and rt != "exited":
        return False        # the failure reset is triggered by the runtime's exit during an invocation
    if rt == "exited" and trig == "timeout":
        return False        # an exit cancels the flows: the invocation fails before the timer
    if "launchfail" in exts and rt != "neverstarted":
        return False        # a launch failure ends init before the runtime is started
    if rt == "neverstarted" and "launchfail" not in exts and len(exts) == 0:
        return False
    if "sub-notpolling" in exts and trig == "failure":
        return False
    # Server.Shutdown is only used once initialisation has ended (it queues behind the init handler and,
    # unlike a reset, cancels nothing): not while init is still waiting for a party
    if trig == "shutdown" and ("sub-notpolling" in exts or (rt == "neverstarted" and "launchfail" not in exts)):
        return False
    return True


def one(sid, rnd, rt, exts, trig):
    names = ["e%d" % (i + 1) for i in range(len(exts))]
    beh = dict(zip(names, exts))
    opt = {"onTerm": {"runtime": "ignore" if rt == "ignores" else "exit"}}
    for n in names:
        opt["onTerm"][n] = "ignore"
    lf = [n for n in names if beh[n] == "launchfail"]
    if lf:
        opt["launchFail"] = lf
    s = Scn(sid, ext=names, timeout_ms=400, opWaitMs=8000, exitLagMs=rnd.choice([0, 0, 25]), **opt)
    s.meta(family="shutdown", rt=rt, exts=beh, trigger=trig)
    s.init()
    subs = {}
    tags = {}
    blocked = False
    hold_last = rt == "neverstarted" and not lf
    for i, n in enumerate(names):
        if beh[n] == "launchfail":
            blocked = True
            break
        s.await_exec(base=n)
        if hold_last and i == len(names) - 1:
            blocked = True      # never registers: the runtime is never started
            break
        subs[n] = ["SHUTDOWN"] if beh[n].startswith("sub-") else []
        if beh[n] in ("exited",):
            subs[n] = rnd.choice([["SHUTDOWN"], []])
        s.register("ext:" + n, subs[n])
    inv = None
    if not blocked:
        s.await_exec(kind="rt")
        polling = [n for n in subs if beh[n] != "sub-notpolling"]
        for n in polling:
            tags["ext:" + n] = s.poll("ext:" + n)
        tags["rt"] = s.poll("rt")
        init_done = len(polling) == len(subs)
        if init_done:
            s.until_ev("Tel", key="kind", val="InitReport")
        for n in subs:
            if beh[n] == "exited":
                s.exit("ext:" + n, code=0)
        if rt == "exited" and trig != "failure":
            s.exit("rt", code=0)
    # ---- trigger
    if trig == "timeout":
        inv = s.invoke(size=3, seed=1)
    elif trig == "failure":
        inv = s.invoke(size=3, seed=1)
        s.wait(tags["rt"])
        s.exit("rt", code=1)
    elif trig == "reset":
        s.call("", "reset", async_=True, tag="RST", reason="SandboxTerminated", ms=600)
    elif trig == "shutdown":
        s.call("", "shutdown", async_=True, tag="RST", ms=600)
    # ---- extensions that react to the SHUTDOWN event
    for n in subs:
        if beh[n] == "sub-exits" and ("ext:" + n) in tags:
            s.wait(tags["ext:" + n])
            s.exit("ext:" + n, code=0)
        elif beh[n] == "sub-ignores" and ("ext:" + n) in tags:
            s.wait(tags["ext:" + n])
    if inv:
        s.wait(inv)
    else:
        s.wait("RST")
    return s.done()


def busy_subscriber(sid, rnd, trig, exits):
    """an extension subscribed to INVOKE and SHUTDOWN is busy with the event when the reset starts; when it polls
    again it is handed the SHUTDOWN event (reason, deadline) at once - it was not parked when the reset released it"""
    s = Scn(sid, ext=["e1"], timeout_ms=400, opWaitMs=8000, onTerm={"runtime": "exit", "e1": "ignore"})
    s.meta(family="shutdown", rt="running", exts={"e1": "sub-busy"}, trigger=trig)
    subs = {"e1": ["INVOKE", "SHUTDOWN"]}
    tags = s.boot(subs)
    s.round(tags, subs)
    inv = s.invoke(size=3, seed=1)
    s.wait(tags["rt"])
    s.wait(tags["ext:e1"])          # e1 is Running (busy with the event)
    if trig == "failure":
        s.exit("rt", code=1)
    if trig == "timeout":
        s.until_ev("Terminate", n=1)
    s.sleep(rnd.choice([40, 80, 150]))
    t = s.call("ext:e1", "next", async_=True)
    s.wait(t)                       # SHUTDOWN, without waiting for the deadline
    if exits:
        s.exit("ext:e1", code=0)
    s.wait(inv)
    s.recover(subs)
    return s.done()


def scenarios(ctx):
    rnd = random.Random(ctx.seed * 97 + 9)
    combos = []
    for rt in RT:
        for nx in (0, 1, 2):
            for exts in itertools.product(EXT, repeat=nx):
                for trig in TRIG:
                    if feasible(rt, exts, trig):
                        combos.append((rt, exts, trig))
    if ctx.quick:
        rnd.shuffle(combos)
        keep = []
        seen = set()
        for c in combos:      # stratified: every (runtime behaviour, trigger) and every extension behaviour
            key = (c[0], c[2])
            if key not in seen or any(("e", b) not in seen for b in c[1]):
                keep.append(c)
                seen.add(key)
                for b in c[1]:
                    seen.add(("e", b))
        combos = (keep + combos[:30])[:48]
    # always: a later extension file fails to launch after an earlier one was started and registered - the one that is
    # running is shut down with the environment that never came up
    for must in (("neverstarted", ("sub-exits", "launchfail"), "timeout"), ("neverstarted", ("unsub", "launchfail"), "timeout"),
                 ("neverstarted", ("sub-ignores", "launchfail"), "reset")):
        if must not in combos and feasible(*must):
            combos.append(must)
    out = [one("c09-%03d" % i, rnd, rt, exts, trig) for i, (rt, exts, trig) in enumerate(combos)]
    k = 0
    for trig in ("timeout", "failure"):
        for exits in (True, False):
            for rep in range(1 if ctx.quick else 4):
                k += 1
                out.append(busy_subscriber("c09-busy%02d" % k, rnd, trig, exits))
    return out


def run(ctx):
    ctx.level = "model_checking"
    # E1: shutdown by the platform driver and by resets in spec/MC_Rapid.tla; SHUTDOWN only to its subscribers
    mcrapid.check(ctx, ['EventsOnlyToSubscribers', 'FailResetShutdownOnlyToSubscribers', 'NoCrash'])
    ctx.assumptions += sc.ASSUME + ["time bounds are one-sided with slack: lower bounds -3 ms, upper bounds +1500 ms"]
    sc.run_families(ctx, scenarios(ctx), "shutdown")
    ctx.coverage["exhaustive"] = not ctx.quick


replay = sc.replay
