"""C16 - process environment: reserved values win, extensions get a filtered view.

E1  spec/Env.tla transcribes the layering of env.Environment (customer map, unreserved platform defaults,
    credentials, reserved runtime variables, reserved platform variables; extension filter) over one key per
    class; TLC checks ReservedWin / UnshadowedArrive / AgentFiltered on every configuration.
E2  every TLC state is one test case: the replayer builds it through the real API (process environment,
    NewEnvironment, SetHandler, StoreRuntimeAPIEnvironmentVariable, StoreEnvironmentVariablesFromInit
    [ForInitCaching]) with concrete values containing '=', newlines and empty strings, and compares the
    complete runtime and extension maps; a sample goes through the full stack (Exec requests seen by the
    supervisor, registration over the advertised Runtime API address).
"""
import json
import os
import re

import tlc
import tlaparse
from common import Inconclusive, build_harness, run_vh, log


def cases_from_dump(path):
    text = open(path).read()
    out = []
    for block in re.split(r"\nState \d+:\n", "\n" + text):
        block = block.strip()
        if not block:
            continue
        st = tlaparse.to_jsonable(tlaparse.parse_state(block))
        cfg, o = st["cfg"], st["out"]
        # functions with an empty domain are printed as <<>>
        for k in ("rt", "ag"):
            if not isinstance(o[k], dict):
                o[k] = {}
        out.append({"cfg": cfg, "out": o})
    return out


def run(ctx):
    ctx.level = "model_checking"
    build_harness()
    r = tlc.run_tlc("Env", "MC_Env.cfg", timeout=600, extra_args=["-dump", "states"], keep=True)
    ctx._tmp.append(r.scratch)
    ctx.add_tlc(r, "MC_Env.cfg")
    if r.violation:
        raise Inconclusive("Env.tla violates %s: the transcription is wrong" % r.violation)
    cases = cases_from_dump(os.path.join(r.scratch, "states.dump"))
    if len(cases) != r.distinct:
        raise Inconclusive("parsed %d cases, TLC found %d states" % (len(cases), r.distinct))
    cf = os.path.join(r.scratch, "cases.json")
    with open(cf, "w") as f:
        json.dump(cases, f)
    rp = os.path.join(r.scratch, "report.json")
    p = run_vh(["envcases", "-in", cf, "-out", rp], timeout=900)
    if p.returncode != 0 or not os.path.exists(rp):
        raise Inconclusive("envcases driver failed: rc=%s %s" % (p.returncode, p.stderr[-2000:]))
    rep = json.load(open(rp))
    if rep.get("error"):
        raise Inconclusive("envcases: " + rep["error"])
    log("E1 Env: %d configurations; E2: %d cases, %d map comparisons, %d full-stack cases, %d mismatches"
        % (r.distinct, rep["cases"], rep["comparisons"], rep["fullstack_cases"], len(rep.get("mismatches") or [])))
    for i, m in enumerate((rep.get("mismatches") or [])[:4]):
        rd = ctx.replay_dir("env-%d" % i)
        with open(os.path.join(rd, "cases.json"), "w") as f:
            json.dump([cases[m["case"]]], f)
        with open(os.path.join(rd, "replay.json"), "w") as f:
            json.dump({"property": "C16", "engine": "envcases", "mismatch": m}, f, indent=1)
        ctx.violation(rd, "%s environment of configuration %s: %s" % (m["which"], json.dumps(m["cfg"]), m["what"][:400]))
    ctx.coverage.update({
        "traces_validated_against_impl": rep["cases"],
        "evaluations": rep["comparisons"],
        "distinct_nontrivial": rep["cases"],
        "rule": "one case = one state of Env.tla (configuration + expected runtime and extension maps) built through the real API; "
                "all cases are distinct configurations",
        "exhaustive": True,
        "samples": rep.get("samples") or [cases[0]],
        "fullstack_cases": rep["fullstack_cases"],
    })
    ctx.assumptions += ["one representative variable name per key class; values are distinct strings per (layer, variable)",
                        "string equality of values is decided by the replayer"]


def replay(ctx, d, meta):
    build_harness()
    rp = os.path.join(d, "report.rerun.json")
    p = run_vh(["envcases", "-in", os.path.join(d, "cases.json"), "-out", rp], timeout=300)
    rep = json.load(open(rp))
    ctx.coverage.update({"states": 1, "transitions": 1, "traces_validated_against_impl": rep["cases"], "samples": [meta.get("mismatch", {}).get("cfg")]})
    for m in rep.get("mismatches") or []:
        ctx.violation(d, "%s: %s" % (m["which"], m["what"][:300]))
