"""Shared driver of the scenario-based checks (engines E4 + E3)."""
import hashlib
import json
import os

import runner
import tlc
from common import Inconclusive, build_harness, log

ASSUME = [
    "processes are scripted actors behind a fake ProcessSupervisor that honours the supervisor contract "
    "(one exit event per process, Kill returns after death); the real local supervisor is checked under C19",
    "internal steps of the emulator complete within the harness's wait bounds (20 s per step)",
    "byte equality of payloads/bodies is computed by the harness projection (sha-256 classes); "
    "the specification decides which class is legal where",
]


def fingerprint(sc):
    ops = [{k: v for k, v in o.items() if k not in ("tag",)} for o in sc["ops"]]
    return hashlib.sha256(json.dumps([sc["opt"], ops], sort_keys=True).encode()).hexdigest()[:16]


NO_TEL = {"Tel"}   # platform lifecycle events are bound by the C15 check only


def run_families(ctx, scenarios, tag, bound=NO_TEL, require_done=True):
    """Run scenarios, validate traces, fill evidence; hangs of the driver (not of an invocation) are inconclusive."""
    build_harness()
    summary, outcomes, outdir = runner.run_and_validate(ctx, scenarios, tag, bound=bound)
    log("E4/E3 %s: %d scenarios, %d accepted, %d rejected, %d crashed, %d hung, %d events, %.1fs"
        % (tag, summary["scenarios"], summary["accepted"], summary["rejected"], summary.get("crash", 0),
           summary.get("hang", 0), summary["events"], summary["wall_s"]))
    fps = set(fingerprint(s) for s in scenarios if outcomes[s["id"]]["status"] == "done")
    cov = ctx.coverage
    cov["traces_validated_against_impl"] = cov.get("traces_validated_against_impl", 0) + summary["accepted"]
    cov["states"] = cov.get("states", 0) + max(summary["tlc_states"], 0)
    cov["transitions"] = cov.get("transitions", 0) + max(summary["tlc_generated"], summary["events"])
    cov["trace_events_validated"] = cov.get("trace_events_validated", 0) + summary["events"]
    cov["evaluations"] = cov.get("evaluations", 0) + summary["scenarios"]
    cov["distinct_nontrivial"] = cov.get("distinct_nontrivial", 0) + len(fps)
    cov.setdefault("families", {})[tag] = {k: summary[k] for k in ("scenarios", "accepted", "rejected", "events", "wall_s")}
    cov.setdefault("samples", [])
    if scenarios and len(cov["samples"]) < 3:
        s0 = scenarios[0]
        cov["samples"].append({"scenario": s0["id"], "opt": s0["opt"], "ops": s0["ops"][:14]})
    cov["rule"] = ("one evaluation = one scenario script executed on the real stack and its recorded trace checked by TLC "
                   "against spec/Trace_Rapid.tla; distinct = distinct (options, op sequence) fingerprints that ran to completion")
    if summary.get("validation_timeouts") and not ctx.violations:
        raise Inconclusive("trace validation did not finish for %s" % summary["validation_timeouts"][:5])
    hung = [o for o in outcomes.values() if o["status"] == "hang"]
    if hung and require_done and not ctx.violations:
        raise Inconclusive("driver hung in %d scenario(s), e.g. %s: %s" % (len(hung), hung[0]["id"], hung[0].get("detail")))
    return summary, outcomes


def replay(ctx, d, meta):
    """Re-run a stored scenario on the current tree and validate its trace again."""
    with open(os.path.join(d, meta.get("scenario", "scenario.json"))) as f:
        sc = json.load(f)
    build_harness()
    summary, outcomes, outdir = runner.run_and_validate(ctx, [sc], "replay")
    ctx.coverage.update({"states": max(summary["tlc_states"], 1), "transitions": max(summary["tlc_generated"], 1),
                         "traces_validated_against_impl": summary["accepted"], "samples": [sc["ops"][:10]]})
    if not ctx.violations:
        log("replay: scenario %s is now accepted" % sc["id"])


def frontend_model(ctx):
    """E1 for the HTTP front end: spec/FrontEnd.tla (the handler around the sandbox) - every request is answered from
    its own outcome, Invoke only after Init, the sandbox is initialised at most once; the as-found variant (no mutex
    around initDone) must violate the last one (vacuity guard)."""
    r = tlc.run_tlc("FrontEnd", "MC_FrontEnd.cfg", timeout=300)
    ctx.add_tlc(r, "MC_FrontEnd.cfg")
    if r.violation:
        raise Inconclusive("FrontEnd.tla violates %s" % r.violation)
    ra = tlc.run_tlc("FrontEnd", "MC_FrontEnd_asfound.cfg", timeout=300)
    if ra.violation != "InitAtMostOnce":
        raise Inconclusive("vacuity guard: InitAtMostOnce not violated by the front end as found (got %s)" % ra.violation)
    ok, nobl, out = tlc.tlapm("FrontEndProof", timeout=600)
    if not ok:
        raise Inconclusive("TLAPS could not prove spec/FrontEndProof.tla: " + out[-800:])
    ctx.coverage["tlaps_obligations_proved"] = ctx.coverage.get("tlaps_obligations_proved", 0) + nobl
    log("E1 FrontEnd: %d distinct states; as-found variant violates InitAtMostOnce; TLAPS: InitAtMostOnce and InvokeAfterInit "
        "inductive for any number of requests (%d obligations)" % (r.distinct, nobl))
