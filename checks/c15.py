"""C15 - platform lifecycle events form a well-nested, truthful trace.

The platform lifecycle events (InitStart, ExtensionInit lines, InitRuntimeDone, InitReport, InvokeStart,
RuntimeDone) are outputs of the actions of spec/Rapid.tla that the code emits them in (deferred senders in
LIFO order, first-fault error types, extension states and subscriptions at emission time).  A recording
EventsAPI puts them into the same trace as the actors' events.  This check re-uses the scenario families
of C03-C09 (healthy, init failures, crash at each point, timeouts, resets, repeated re-initialisation) and
validates the traces with the lifecycle events BOUND: the i-th recorded lifecycle event must be the i-th
one the specification emitted.  (The other checks leave these events unbound, so that a change that only
affects telemetry is attributed to C15.)
"""
import random

import scenario_common as sc
import c03
import c04
import c05
import c06
import c08
import c09


class _Sub:
    def __init__(self, ctx, quick=True):
        self.seed = ctx.seed
        self.quick = quick
        self.tier = "quick" if quick else "thorough"


def scenarios(ctx):
    sub = _Sub(ctx, quick=True)
    rnd = random.Random(ctx.seed * 15 + 1)
    fam = []
    take = (lambda xs, n: xs if not ctx.quick else rnd.sample(xs, min(n, len(xs))))
    fam += take(c03.scenarios(sub), 14)
    fam += take(c04.scenarios(sub), 14)
    fam += take(c05.scenarios(sub), 8)
    fam += take(c06.scenarios(sub), 29)
    c08all = c08.scenarios(sub)
    fam += take(c08all, 10)
    # always: a fault reported while a reset shuts the environment down, then a generation that fails on its own
    # (InitRuntimeDone / the error answer must carry the new generation's own first fault)
    fam += [x for x in c08all if x.get("meta", {}).get("prefix") == "ext-shutdown-error"
            and x.get("meta", {}).get("suffix") in ("crash", "init-crash") and x not in fam]
    fam += take(c09.scenarios(sub), 14)
    out = []
    for i, s in enumerate(fam):
        s = dict(s)
        s["id"] = "c15-%03d-%s" % (i, s["id"])
        out.append(s)
    return out


def run(ctx):
    ctx.level = "model_checking"
    ctx.assumptions += sc.ASSUME
    sc.run_families(ctx, scenarios(ctx), "lifecycle", bound=None, require_done=False)
    ctx.coverage["exhaustive"] = False


def replay(ctx, d, meta):
    import json, os, runner
    from common import build_harness, log
    with open(os.path.join(d, meta.get("scenario", "scenario.json"))) as f:
        scn = json.load(f)
    build_harness()
    summary, outcomes, outdir = runner.run_and_validate(ctx, [scn], "replay", bound=None)
    ctx.coverage.update({"states": max(summary["tlc_states"], 1), "transitions": max(summary["tlc_generated"], 1),
                         "traces_validated_against_impl": summary["accepted"], "samples": [scn["ops"][:10]]})
