"""C12 - Runtime API calls are answered according to the lifecycle automaton.

Scenarios (E4): seeded random call sequences over {next, response/error with current, stale and unknown
ids, init/error, restore routes, unknown routes, wrong methods} interleaved with invocations, on a stack
without extensions (function timeout 300 ms so that abandoned invocations end quickly).  Every answer
(status, error type, delivered invocation) must be the one the runtime automaton of Rapid prescribes
(E3): an illegal call that changes the state shows up at the following legal call.
"""
import random

from scen import Scn
import scenario_common as sc

ROUTES = [
    ("GET", "/2018-06-01/runtime/unknown", "404"),
    ("GET", "/2018-06-01/runtime/restore/next", "404"),      # snapshot routes do not exist in plain mode
    ("POST", "/2018-06-01/runtime/restore/error", "404"),
    ("POST", "/2018-06-01/runtime/invocation/next", "405"),
    ("GET", "/2018-06-01/runtime/init/error", "405"),
    ("GET", "/2018-06-01/ping", "200"),
]


def one(sid, rnd, length, with_ext=False):
    s = Scn(sid, ext=["e1"] if with_ext else [], timeout_ms=300, onTerm={"e1": "exit"})
    s.meta(family="rtapi")
    s.init()
    if with_ext:
        # an INVOKE subscriber that keeps invocations open until it polls again
        s.await_exec(base="e1")
        s.register("ext:e1", ["INVOKE"])
    s.await_exec(kind="rt")
    if with_ext:
        s.poll("ext:e1")
    polls = []      # outstanding polls (tags)
    inv = None
    nresp = 0
    for i in range(length):
        r = rnd.random()
        if with_ext and rnd.random() < 0.12:
            s.poll("ext:e1")
            continue
        if r < 0.30:
            if len(polls) < 2:
                polls.append(s.poll("rt"))
        elif r < 0.45:
            if inv is None:
                inv = s.invoke(size=rnd.choice([0, 3, 50]), seed=i)
                s.sleep(2)
        elif r < 0.62:
            nresp += 1
            s.call("rt", "response", id=rnd.choice(["current", "current", "current", "stale:1", "unknown"]), body="resp-%d" % nresp)
        elif r < 0.72:
            nresp += 1
            s.call("rt", "error", id=rnd.choice(["current", "current", "stale:1", "unknown"]), body='{"errorMessage":"e%d"}' % nresp,
                   errType=rnd.choice(["Function.Oops", "Runtime.Bad", "weird"]))
        elif r < 0.80:
            s.call("rt", "initerror", body='{"errorMessage":"init"}', errType="Runtime.InitFail")
        elif r < 0.92:
            m, p, cls = rnd.choice(ROUTES)
            s.call("rt", "route", method=m, path=p, name=cls)
        else:
            s.sleep(1)
    if inv is not None:
        s.wait(inv)
    return s.done()


def scenarios(ctx):
    rnd = random.Random(ctx.seed * 7919 + 12)
    n = 60 if ctx.quick else 600
    return [one("c12-%03d" % i, rnd, rnd.randrange(6, 22), with_ext=(i % 3 == 2)) for i in range(n)]


def run(ctx):
    ctx.level = "model_checking"
    ctx.assumptions += sc.ASSUME
    sc.run_families(ctx, scenarios(ctx), "rtapi")
    ctx.coverage["exhaustive"] = False


replay = sc.replay
