"""C12 - Runtime API calls are answered according to the lifecycle automaton.

Scenarios (E4): seeded random call sequences over {next, response/error with current, stale, unknown and
case-variant ids, init/error, restore routes, unknown routes, wrong methods} interleaved with invocations, on a stack
without extensions (function timeout 300 ms so that abandoned invocations end quickly).  Every answer
(status, error type, delivered invocation) must be the one the runtime automaton of Rapid prescribes
(E3): an illegal call that changes the state shows up at the following legal call.
"""
import random

from scen import Scn
import scenario_common as sc
import mcsim

ROUTES = [
    ("GET", "/2018-06-01/runtime/unknown", "404"),
    ("GET", "/2018-06-01/runtime/restore/next", "404"),      # snapshot routes do not exist in plain mode
    ("POST", "/2018-06-01/runtime/restore/error", "404"),
    ("POST", "/2018-06-01/runtime/invocation/next", "405"),
    ("GET", "/2018-06-01/runtime/init/error", "405"),
    ("GET", "/2018-06-01/ping", "200"),
    # Logs / Telemetry subscription: stubs ("not supported", 202) whoever asks; the credentials endpoint only exists in snapshot mode
    ("PUT", "/2020-08-15/logs", "202"),
    ("PUT", "/2022-07-01/telemetry", "202"),
    ("GET", "/2022-07-01/telemetry", "405"),
    ("POST", "/2020-08-15/logs", "405"),
    ("GET", "/2021-04-23/credentials", "404"),
    ("DELETE", "/2018-06-01/runtime/invocation/next", "405"),
    ("GET", "/2020-01-01/extension/register", "405"),
    ("GET", "/2019-01-01/runtime/invocation/next", "404"),
]


def one(sid, rnd, length, with_ext=False):
    s = Scn(sid, ext=["e1"] if with_ext else [], timeout_ms=300, onTerm={"e1": "exit"})
    s.meta(family="rtapi")
    s.init()
    if with_ext:
        # an INVOKE subscriber that keeps invocations open until it polls again
        s.await_exec(base="e1")
        s.register("ext:e1", ["INVOKE"])
    s.await_exec(kind="rt")
    if with_ext:
        s.poll("ext:e1")
    polls = []      # outstanding polls (tags)
    inv = None
    nresp = 0
    for i in range(length):
        r = rnd.random()
        if with_ext and rnd.random() < 0.12:
            s.poll("ext:e1")
            continue
        if r < 0.30:
            if len(polls) < 2:
                polls.append(s.poll("rt"))
        elif r < 0.45:
            if inv is None:
                inv = s.invoke(size=rnd.choice([0, 3, 50]), seed=i)
                s.sleep(2)
        elif r < 0.62:
            nresp += 1
            s.call("rt", "response", id=rnd.choice(["current", "current", "current", "stale:1", "unknown", "upper"]), body="resp-%d" % nresp)
        elif r < 0.72:
            nresp += 1
            s.call("rt", "error", id=rnd.choice(["current", "current", "stale:1", "unknown", "upper"]), body='{"errorMessage":"e%d"}' % nresp,
                   errType=rnd.choice(["Function.Oops", "Runtime.Bad", "weird"]))
        elif r < 0.80:
            s.call("rt", "initerror", body='{"errorMessage":"init"}', errType="Runtime.InitFail")
        elif r < 0.92:
            m, p, cls = rnd.choice(ROUTES)
            s.call("rt", "route", method=m, path=p, name=cls)
        else:
            s.sleep(1)
    if inv is not None:
        s.wait(inv)
    return s.done()


def generations(sid, rnd, n):
    """the automaton belongs to the runtime of the current generation: after every reset (an invocation that is not
    answered times out) the new runtime starts in its initial state and its calls are judged against that"""
    s = Scn(sid, ext=[], timeout_ms=300, opWaitMs=6000)
    s.meta(family="rtapi", kind="generations", n=n)
    s.init()
    s.await_exec(kind="rt")
    poll = s.poll("rt")
    for g in range(n):
        it = s.invoke(size=3, seed=g + 1)
        s.wait(poll)
        s.call("rt", "response", id="current", body="gen%d-first" % g)
        poll = s.poll("rt")
        s.wait(it)
        # one misuse per generation, then an invocation that is left unanswered
        misuse = rnd.choice(["initerror", "response-again", "restorenext", "none"])
        if misuse == "initerror":
            s.call("rt", "initerror", body='{"errorMessage":"late"}', errType="Runtime.Late")
        elif misuse == "response-again":
            s.call("rt", "response", id="current", body="again")
        elif misuse == "restorenext":
            s.call("rt", "restorenext")
        it = s.invoke(size=3, seed=100 + g)
        s.wait(poll)
        m = s.mark()
        s.wait(it)              # timeout, reset
        it = s.invoke(size=3, seed=200 + g)
        s.await_exec(kind="rt", since=m)
        if rnd.random() < 0.5:
            s.call("rt", "response", id="current", body="before-first-poll")     # the new runtime has not polled yet
        poll = s.call("rt", "next", async_=True)
        s.wait(poll)
        s.call("rt", "response", id="current", body="gen%d-recovered" % g)
        poll = s.poll("rt")
        s.wait(it)
    return s.done()


def oversized(sid, extra):
    """next, response (above the size limit: 413, the caller gets the too-large error), next: the lifecycle goes on -
    the second poll parks and is answered with the next invocation"""
    L = 6 * 1024 * 1024 + 100
    s = Scn(sid, ext=[], timeout_ms=3000)
    s.meta(family="rtapi", kind="oversized-response", extra=extra)
    s.init()
    s.await_exec(kind="rt")
    tags = {"rt": s.poll("rt")}
    it = s.invoke(size=5, seed=1)
    s.wait(tags["rt"])
    s.call("rt", "response", id="current", size=L + extra, seed=3)
    tags["rt"] = s.poll("rt")
    s.wait(it)
    s.round(tags, {})
    return s.done()


def scenarios(ctx):
    rnd = random.Random(ctx.seed * 7919 + 12)
    n = 60 if ctx.quick else 600
    out = [one("c12-%03d" % i, rnd, rnd.randrange(6, 22), with_ext=(i % 3 == 2)) for i in range(n)]
    out += [generations("c12-gen%02d" % i, rnd, 2 if ctx.quick else 3) for i in range(3 if ctx.quick else 20)]
    return out


def run(ctx):
    ctx.level = "model_checking"
    ctx.assumptions += sc.ASSUME
    sc.run_families(ctx, scenarios(ctx) + [oversized("c12-big%d" % (i + 1), x) for i, x in enumerate((2, 4096) if ctx.quick else (1, 2, 3, 4096, 1024 * 1024))], "rtapi")
    # snapshot mode: the automaton has the restore states as well (restore/next parks until a restore is requested, is
    # answered, then "next" - also when the invocation arrived while the runtime was still busy with its restore hook)
    import c18
    sub = type("Sub", (), {"seed": ctx.seed, "quick": True, "tier": "quick"})()
    snap = [x for x in c18.scenarios(sub) if x.get("meta", {}).get("hook") in ("late", "next", "nopoll", "next-before-restore")]
    sc.run_families(ctx, [dict(x, id="c12-" + x["id"]) for x in snap], "rtapi-snapshot")
    # call programs generated by TLC (simulated behaviours of spec/MC_Rapid.tla with API misuse), lib/mcsim.py
    sims = mcsim.scenarios("c12s", "sim", 8 if ctx.quick else 100, ctx.seed + 7, depth=140)
    ctx.coverage["tlc_simulated_scenarios"] = len(sims)
    sc.run_families(ctx, sims, "tlc-simulated")
    ctx.coverage["exhaustive"] = False


replay = sc.replay
