"""C01 - invocation round trip is byte-exact and yields exactly one outcome.

Scenarios (E4): sequences of invocations of the kinds {ok, error, oversize response, runtime stalls ->
timeout, runtime exits} with payloads that are empty, one byte, binary (all byte values, not UTF-8), JSON,
and (thorough) up to the 6 MiB + 100 limit and beyond; random client contexts.  The harness projection
maps the bytes the runtime received to the invocation whose payload they equal and the bytes a caller
received to the body the runtime posted (sha-256 classes); the specification (E3) decides which class is
legal: the payload of the invocation in flight, the body posted for that caller's request id, exactly one
InvokeRet per InvokeCall.  Request-id freshness, ARN and deadline are compared by the projection
(lib/traceprep.py) and surface as an unexplainable event when wrong.
"""
import random

from scen import Scn
import scenario_common as sc
import mcrapid
import forced

LIMIT = 6 * 1024 * 1024 + 100
KINDS = ["ok", "ok", "error", "oversize", "timeout", "exit", "abort", "repoll", "answered-timeout", "upper-first"]


def sizes(rnd, thorough):
    base = [0, 1, 2, 17, 255, 4096, 70000]
    if thorough:
        base += [LIMIT // 2, LIMIT - 1, LIMIT]
    return rnd.choice(base)


def one(sid, rnd, kinds, thorough, fe=False):
    """fe: the invocations enter through the HTTP front end (cmd/aws-lambda-rie InvokeHandler): the first request
    initialises the sandbox, the function timeout is whole seconds, extra kinds 'badctx' (client context header that
    is not base64: 500, sandbox untouched) and 'second' (a second request while one is in flight: 400)"""
    if fe:
        s = Scn(sid, ext=[], timeout_ms=1000, frontEnd=True, opWaitMs=8000)
        s.meta(family="frontend", kinds=kinds)
    else:
        s = Scn(sid, ext=[], timeout_ms=400)
        s.meta(family="roundtrip", kinds=kinds)
        s.init()
        s.await_exec(kind="rt", n=1)
    nexec = 1
    boot = fe
    cold = fe or rnd.random() < 0.5
    if cold:
        # cold start: the first invocation arrives while the runtime is still initialising (first poll 50 ms later)
        polltag = None
    else:
        polltag = s.poll("rt")
    fresh = False
    for j, kind in enumerate(kinds):
        ctx = "ctx-%d-%s" % (j, "x" * rnd.randrange(0, 40)) if rnd.random() < 0.5 else ""
        if kind == "badctx":
            s.invoke(async_=False, size=3, seed=rnd.randrange(1, 10 ** 6), badCtx=True)
            continue
        trace = "Root=1-%08x-abcdef012345678912345678" % rnd.randrange(1, 2 ** 31) if fe and rnd.random() < 0.5 else ""
        it = s.invoke(size=(3 * 1024 * 1024 if kind == "abort" else sizes(rnd, thorough)), seed=rnd.randrange(1, 10 ** 6), ctx=ctx,
                      **({"trace": trace} if trace else {}))
        if boot:
            s.await_exec(kind="rt", n=1)
            boot = False
        if polltag is None:
            s.sleep(50)
            polltag = s.call("rt", "next", async_=True)
        if fresh:
            # the previous environment was torn down: this invocation starts a new runtime (inline init)
            nexec += 1
            s.await_exec(kind="rt", n=nexec)
            polltag = s.call("rt", "next", async_=True)
            fresh = False
        if kind == "abort":
            # the connection of the poll that receives a large event breaks part-way; the runtime polls again
            # (same invocation, whole event), answers, and the next invocation must get its own event
            pass
        s.wait(polltag)
        if kind in ("repoll", "abort"):
            if kind == "abort":
                s.call("rt", "nextabort", size=20000)
            # a repeated poll before responding returns the same invocation again
            t2 = s.call("rt", "next", async_=True)
            s.wait(t2)
            s.call("rt", "response", id="current", size=sizes(rnd, thorough), seed=rnd.randrange(1, 10 ** 6))
            polltag = s.poll("rt")
            s.wait(it)
        elif kind == "second":
            # a second request while this one is in flight is refused and changes nothing
            s.invoke(async_=False, caller=2, size=4, seed=rnd.randrange(1, 10 ** 6))
            s.call("rt", "response", id="current", size=sizes(rnd, thorough), seed=rnd.randrange(1, 10 ** 6))
            polltag = s.poll("rt")
            s.wait(it)
        elif kind == "ok":
            s.call("rt", "response", id="current", size=sizes(rnd, thorough), seed=rnd.randrange(1, 10 ** 6))
            polltag = s.poll("rt")
            s.wait(it)
        elif kind == "error":
            s.call("rt", "error", id="current", size=rnd.choice([0, 5, 300]), seed=rnd.randrange(1, 10 ** 6), errType="Function.Failed")
            polltag = s.poll("rt")
            s.wait(it)
        elif kind == "oversize":
            s.call("rt", "response", id="current", size=LIMIT + rnd.choice([1, 2, 4096]), seed=rnd.randrange(1, 10 ** 6))
            polltag = s.poll("rt")
            s.wait(it)
        elif kind == "timeout":
            s.wait(it)          # the runtime never answers: timeout, reset, new generation
            fresh = True
        elif kind == "answered-timeout":
            # the runtime answers but never polls again: the invocation is not complete, it times out, and the
            # caller gets the timeout outcome only
            s.call("rt", "response", id="current", size=sizes(rnd, thorough), seed=rnd.randrange(1, 10 ** 6))
            s.wait(it)
            fresh = True
        elif kind == "upper-first":
            # a submission whose id differs from the current one in letter case only is refused and has no effect:
            # the genuine answer is still accepted and reaches the caller
            s.call("rt", "response", id="upper", body="case-variant")
            s.call("rt", "response", id="current", size=sizes(rnd, thorough), seed=rnd.randrange(1, 10 ** 6))
            polltag = s.poll("rt")
            s.wait(it)
        elif kind == "exit":
            s.exit("rt", code=rnd.choice([0, 1, 137]))
            s.wait(it)
            fresh = True
    return s.done()


def fe_scenarios(ctx, prefix="c01"):
    rnd = random.Random(ctx.seed * 7919 + 11)
    hist = [["ok", "ok"], ["error"], ["timeout"], ["exit"], ["oversize"], ["repoll"], ["badctx", "ok"], ["second"], ["answered-timeout"],
            ["timeout", "error"], ["exit", "second"], ["ok", "badctx", "timeout"]]
    if not ctx.quick:
        kinds = ["ok", "error", "oversize", "timeout", "exit", "repoll", "badctx", "second", "answered-timeout", "upper-first"]
        hist += [[a, b] for a in kinds for b in kinds]
        hist += [[rnd.choice(kinds) for _ in range(rnd.randrange(3, 6))] for _ in range(30)]
    return [one("%s-fe%03d" % (prefix, i + 1), rnd, h + ["ok"], not ctx.quick and i % 7 == 0, fe=True) for i, h in enumerate(hist)]


def slow_teardown(sid, fe=False):
    """the runtime exits during invocation 1 while an extension subscribed to SHUTDOWN takes 300 ms to leave: the failure is
    answered when the environment has been torn down, and the next event - posted right after that answer - makes its
    round trip through freshly started processes"""
    subs = {"e1": ["INVOKE", "SHUTDOWN"]}
    s = Scn(sid, ext=["e1"], timeout_ms=3000, opWaitMs=9000, frontEnd=fe, onTerm={"e1": "ignore"})
    s.meta(family="frontend" if fe else "roundtrip", kind="slow-teardown")
    if fe:
        it = s.invoke(size=6, seed=41)
        s.await_exec(base="e1")
        s.register("ext:e1", subs["e1"])
        s.await_exec(kind="rt")
        tags = {"ext:e1": s.poll("ext:e1"), "rt": s.poll("rt")}
    else:
        tags = s.boot(subs)
        it = s.invoke(size=6, seed=41)
    s.wait(tags["rt"])
    s.wait(tags["ext:e1"])
    te = s.poll("ext:e1")
    s.exit("rt", code=1)
    s.wait(te)                  # SHUTDOWN
    s.sleep(300)
    s.exit("ext:e1", code=0)
    s.wait(it)
    s.recover(subs)
    return s.done()


def aborted_upload(sid, size):
    """the upload of the runtime's answer breaks off in the middle of the body (the runtime dies): what had arrived is
    not an answer - the caller gets the one outcome of the failed invocation (the runtime's exit), and the next event
    makes its round trip"""
    s = Scn(sid, ext=[], timeout_ms=2000, opWaitMs=8000)
    s.meta(family="roundtrip", kind="aborted-upload", size=size)
    tags = s.boot({})
    s.round(tags, {})
    it = s.invoke(size=9, seed=51)
    s.wait(tags["rt"])
    s.hold("drv.body:u1", 1)
    post = s.call("rt", "response", async_=True, id="current", size=size, seed=52,
                  headers={"X-Verif-Slow-Body": "u1", "X-Verif-Abort-Body": "1"})
    s.until_held("drv.body:u1")
    s.sleep(20)
    s.release("drv.body:u1")
    s.wait(post)
    s.sleep(100)                # whatever the emulator makes of the fragment, it has made it by now
    s.exit("rt", code=1)
    s.wait(it)
    s.recover({})
    return s.done()


def fe_stalled(sid, size, second):
    """the connection of caller 1 stalls when the front end writes the answer (the peer is not reading); meanwhile
    caller 2 is served in full (the emulator is free again as soon as invocation 1 is over); when caller 1's
    connection continues it must get the bytes of its own answer"""
    s = Scn(sid, ext=[], timeout_ms=3000, frontEnd=True, opWaitMs=8000)
    s.meta(family="frontend", kind="stalled-caller", size=size, second=second)
    s.hold("drv.feWrite:1")
    a = s.invoke(caller=1, size=7, seed=31)
    s.await_exec(kind="rt")
    t = s.call("rt", "next", async_=True)
    s.wait(t)
    s.call("rt", "response", id="current", size=size, seed=32)
    tags = {"rt": s.poll("rt")}
    s.until_held("drv.feWrite:1")
    b = s.invoke(caller=2, size=9, seed=33)
    s.wait(tags["rt"])
    if second == "error":
        s.call("rt", "error", id="current", size=size, seed=34, errType="Function.Second")
    else:
        s.call("rt", "response", id="current", size=size, seed=35)
    tags["rt"] = s.poll("rt")
    s.wait(b)
    s.release("drv.feWrite:1")
    s.wait(a)
    s.round(tags, {})
    return s.done()


def fe_stalled_scenarios(ctx):
    sizes = [64, 70000] if ctx.quick else [1, 64, 4096, 70000, 3 * 1024 * 1024]
    out = []
    for i, size in enumerate(sizes):
        for second in ("response", "error"):
            out.append(fe_stalled("c01-fe-stall%02d" % (len(out) + 1), size, second))
    return out


def scenarios(ctx):
    rnd = random.Random(ctx.seed * 31337 + 1)
    out = []
    n = 0
    # all histories of length <= 2 over the five kinds, then random longer ones
    kinds = ["ok", "error", "oversize", "timeout", "exit", "abort", "repoll"]
    hist = [["answered-timeout"], ["upper-first"], ["upper-first", "answered-timeout"]] + [[a] for a in kinds] + [[a, b] for a in kinds for b in kinds]
    if ctx.quick:
        hist = [h for h in hist if "oversize" not in h or len(h) == 1 or h[1] == "ok"]
    for h in hist:
        n += 1
        out.append(one("c01-%03d" % n, rnd, h + ["ok"], not ctx.quick and n % 5 == 0))
    for i in range(10 if ctx.quick else 120):
        n += 1
        ln = rnd.randrange(3, 6)
        out.append(one("c01-%03d" % n, rnd, [rnd.choice(KINDS) for _ in range(ln)] + ["ok"], not ctx.quick and i % 6 == 0))
    return out


def run(ctx):
    ctx.level = "model_checking"
    sc.frontend_model(ctx)
    # E1: the property predicates as invariants of the composite (spec/MC_Rapid.tla)
    mcrapid.check(ctx, ['OkHasBody', 'StreamOwnerIsReserver', 'NoGhostInvoke'])
    ctx.assumptions += sc.ASSUME
    # forced schedules: a completion message that arrives after its invocation timed out, during the next one - the next
    # caller gets the answer posted for its own event
    sc.run_families(ctx, forced.scenarios('c01', ('late-done-ok', 'late-done-fail')), "forced-schedule")
    sc.run_families(ctx, scenarios(ctx) + [slow_teardown("c01-slowtd"), aborted_upload("c01-abort1", 65536)]
                    + ([] if ctx.quick else [aborted_upload("c01-abort2", 2), aborted_upload("c01-abort3", 3 * 1024 * 1024)]), "roundtrip")
    # the same histories through the real HTTP front end (cmd/aws-lambda-rie InvokeHandler), validated against
    # Trace_Rapid (core events) and Trace_FrontEnd (the handler's own steps and its status mapping)
    sc.run_families(ctx, fe_scenarios(ctx) + fe_stalled_scenarios(ctx) + [slow_teardown("c01-fe-slowtd", fe=True)], "frontend")
    ctx.coverage["exhaustive"] = False


replay = sc.replay
