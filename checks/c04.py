"""C04 - invoke barrier and INVOKE event fan-out are exact.

Scenarios (E4): subscription sets over 0..3 external (+0..1 internal) extensions, all parties healthy,
2-3 consecutive invocations, every order in which runtime and subscribers return to next (seeded
permutations; all permutations in the thorough tier for small sets), one party held back.  The recorded
trace must be a behaviour of Rapid (E3): an INVOKE event at a non-subscriber, a missing or duplicated
event, a wrong request id, completion before the last party polled, or the next invocation delivered
early leave the trace without an explanation.
"""
import itertools
import random

from scen import Scn
import scenario_common as sc
import mcrapid
import forced

SUBSETS = [[], ["INVOKE"], ["SHUTDOWN"], ["INVOKE", "SHUTDOWN"]]
BOUND = None  # all event kinds except telemetry are bound (see scenario_common / traceprep)


# the caller's trace header reaches the extensions verbatim, whatever its form: canonical, with further fields,
# fields in another order, without a sampling decision, an opaque value, empty
TRACE_FORMS = [
    "Root=1-%(a)08x-%(b)024x;Parent=%(c)016x;Sampled=1",
    "Root=1-%(a)08x-%(b)024x;Parent=%(c)016x;Sampled=1;Lineage=%(a)08x:0",
    "Sampled=0;Parent=%(c)016x;Root=1-%(a)08x-%(b)024x",
    "Self=1-%(a)08x-%(b)024x;Root=1-%(a)08x-%(b)024x;Parent=%(c)016x;Sampled=1",
    "Root=1-%(a)08x-%(b)024x;Parent=%(c)016x",
    "opaque-trace-%(a)d",
    "",
]


def trace_header(i, k):
    return TRACE_FORMS[i % len(TRACE_FORMS)] % {"a": k, "b": k * 7 + 1, "c": k * 13 + 5}


def scenarios(ctx):
    rnd = random.Random(ctx.seed)
    out = []
    n = 0
    combos = []
    for nx in range(0, 4):
        for assign in itertools.product(range(4), repeat=nx):
            for internal in (None, ["INVOKE"], []):
                combos.append((assign, internal))
    if ctx.quick:
        rnd.shuffle(combos)
        # keep every single-extension combination and a sample of the rest
        combos = [c for c in combos if len(c[0]) <= 1] + [c for c in combos if len(c[0]) > 1][:40]
    for assign, internal in combos:
        subs = {"e%d" % (i + 1): SUBSETS[a] for i, a in enumerate(assign)}
        ints = {} if internal is None else {"i1": internal}
        listeners = ["ext:" + e for e in subs if "INVOKE" in subs[e]] + ["int:" + i for i in ints if "INVOKE" in ints[i]]
        parties = ["rt"] + listeners
        orders = list(itertools.permutations(parties)) if len(parties) <= 3 and not ctx.quick else None
        variants = orders if orders else [tuple(rnd.sample(parties, len(parties))) for _ in range(2 if ctx.quick else 4)]
        for vi, order in enumerate(variants):
            n += 1
            s = Scn("c04-%03d" % n, ext=list(subs))
            s.meta(family="fanout", subs=subs, internal=ints, order=list(order))
            tags = s.boot(subs, ints)
            rounds = 2 if ctx.quick else 3
            hold = rnd.choice(parties) if vi % 2 == 0 else None
            for r in range(rounds):
                k = s.ninv + 1
                it = s.invoke(size=rnd.choice([0, 1, 7, 300]), seed=k, trace=trace_header(n + k, k))
                s.wait(tags["rt"])
                for w in listeners:
                    s.wait(tags[w])
                s.call("rt", "response" if r != 1 else "error", id="current", body="res-%d" % k,
                       **({"errType": "Function.E"} if r == 1 else {}))
                seq = list(order) if r % 2 == 0 else list(reversed(order))
                for w in seq:
                    if w == hold and r == 0:
                        continue
                    tags[w] = s.poll(w)
                if hold and r == 0:
                    # everyone else is back; the held-back party arrives 40 ms later: nothing may complete before
                    s.sleep(60)
                    tags[hold] = s.poll(hold)
                s.wait(it)
            out.append(s.done())
    return out


def after_reset(sid, rnd, subs, ints):
    """the fan-out of the first invocation after a reset: the invocation itself brings the environment up (inline
    init), the subscribers register during it - and get the event like in any other invocation"""
    s = Scn(sid, ext=list(subs), timeout_ms=400, opWaitMs=6000)
    s.meta(family="fanout", subs=subs, internal=ints, kind="after-reset")
    tags = s.boot(subs, ints)
    s.round(tags, subs, ints)
    it = s.invoke(size=3, seed=5)
    s.wait(tags["rt"])
    for w in tags:
        if w != "rt" and "INVOKE" in (subs.get(w[4:]) if w.startswith("ext:") else ints.get(w[4:])):
            s.wait(tags[w])
    s.wait(it)                  # nobody answers: timeout, reset
    tags = s.recover(subs, ints)
    s.round(tags, subs, ints)
    return s.done()


def after_reset_scenarios(ctx):
    rnd = random.Random(ctx.seed * 41 + 4)
    combos = [({"e1": ["INVOKE"]}, {}), ({"e1": ["INVOKE"], "e2": ["SHUTDOWN"]}, {"i1": ["INVOKE"]}), ({}, {"i1": ["INVOKE"]})]
    if not ctx.quick:
        combos += [({"e1": ["INVOKE", "SHUTDOWN"], "e2": ["INVOKE"]}, {}), ({"e1": []}, {"i1": ["INVOKE"], "i2": []})]
    return [after_reset("c04-ar%d" % (i + 1), rnd, s_, i_) for i, (s_, i_) in enumerate(combos)]


def run(ctx):
    ctx.level = "model_checking"
    # E1: the property predicates as invariants of the composite (spec/MC_Rapid.tla)
    mcrapid.check(ctx, ['DoneOnlyAfterAll', 'EventsOnlyToSubscribers', 'FailResetShutdownOnlyToSubscribers'], extra_configs=('internal',) if ctx.quick else ('internal', 'internal2'))
    ctx.assumptions += sc.ASSUME
    scs = scenarios(ctx) + after_reset_scenarios(ctx)
    sc.run_families(ctx, scs, "fanout")
    sc.run_families(ctx, forced.scenarios('c04', ('dispatch-held',)), "forced-schedule")
    ctx.coverage["exhaustive"] = False


replay = sc.replay
