"""C17 - direct-invoke streaming path: stateless parsing, faithful copy, rate bound.

E1  spec/DirectInvoke.tla: ReceiveDirectInvoke over its four package variables and header classes
    (payload limit absent/100/-1/invalid, response mode absent/buffered/streaming/invalid, rate and burst
    absent/valid/out of range, token match / wrong invoke id / reservation token / version);
    HistoryIndependent (the result of a request equals its result on a fresh emulator) is checked by TLC on
    all request sequences (the graph is finite); with the code as found (mode assigned only when present)
    TLC must exhibit the violation (vacuity guard).  spec/TokenBucket.tla: RateBound, termination.
E2  every edge of the parser graph is replayed on the real function (result, parsed mode, package variables,
    status, Error-Type, trailer announcement); every copy case enumerated by TLC (size x limit x chunking x
    read failure x runtime stalling at a position, interrupted by a reset) runs through SendDirectInvokeResponse in buffered and streaming mode with a stamping
    writer: trailer class, forwarded length, byte-for-byte prefix, and for streaming the volume-by-time bound
    burst + floor(t / 125 ms) x quantum (TokenBucket.tla, 40 ms slack), also with quantum > burst; a reset arriving during a throttled copy must end it Truncated.
"""
import json
import os
import re

import tlc
import tlaparse
import walk
from common import Inconclusive, build_harness, run_vh, log


def run(ctx):
    ctx.level = "model_checking"
    build_harness()
    r = tlc.run_tlc("DirectInvoke", "MC_DirectInvoke.cfg", timeout=900, extra_args=["-dump", "dot,actionlabels", "g.dot"], keep=True)
    ctx._tmp.append(r.scratch)
    ctx.add_tlc(r, "MC_DirectInvoke.cfg")
    if r.violation:
        raise Inconclusive("DirectInvoke.tla (strict) violates %s" % r.violation)
    ra = tlc.run_tlc("DirectInvoke", "MC_DirectInvoke_asfound.cfg", timeout=300)
    if ra.violation != "HistoryIndependent":
        raise Inconclusive("vacuity guard: HistoryIndependent not violated by the sticky parser (got %s)" % ra.violation)
    rb = tlc.run_tlc("TokenBucket", "MC_TokenBucket.cfg", timeout=300)
    ctx.add_tlc(rb, "MC_TokenBucket.cfg")
    if rb.violation:
        raise Inconclusive("TokenBucket.tla violates %s" % rb.violation)
    # unbounded: the rate bound is inductive for every burst, refill quantum, payload and chunking (TLAPS)
    okp, nobl, outp = tlc.tlapm("TokenBucketProof", timeout=600)
    if not okp:
        raise Inconclusive("TLAPS could not prove spec/TokenBucketProof.tla: " + outp[-800:])
    ctx.coverage["tlaps_obligations_proved"] = nobl
    log("E1 TLAPS TokenBucketProof: all %d obligations proved (RateBound for every burst / refill / chunking)" % nobl)
    # ---- parser walk
    g = walk.load_dot(os.path.join(r.scratch, "g.dot"))
    paths, cov, total = walk.cover_paths(g, max_len=200, seed=ctx.seed)
    wf = os.path.join(r.scratch, "walk.json")
    walk.write_walk(g, paths, wf, meta={"spec": "DirectInvoke"})
    rp = os.path.join(r.scratch, "report.json")
    p = run_vh(["diwalk", "-in", wf, "-out", rp, "-maxdiv", "6"], timeout=900)
    if p.returncode != 0 or not os.path.exists(rp):
        raise Inconclusive("diwalk driver failed: %s" % p.stderr[-1500:])
    rep = json.load(open(rp))
    if rep.get("error"):
        raise Inconclusive("diwalk: " + rep["error"])
    log("E1 DirectInvoke: %d states, %d edges; E2 parser walk: %d paths, %d steps, %d edges confirmed"
        % (len(g.nodes), len(g.edges), rep["paths"], rep["steps"], rep["edges_covered"]))
    seen = set()
    for i, d in enumerate(rep.get("divergences") or []):
        key = re.sub(r"\d+", "N", d["what"])[:50]
        if key in seen:
            continue
        seen.add(key)
        rd = ctx.replay_dir("parse-%d" % i)
        start, path = paths[d["path"]]
        walk.write_walk(g, [(start, path[:d["step"] + 1])], os.path.join(rd, "walk.json"), meta={"spec": "DirectInvoke"})
        with open(os.path.join(rd, "replay.json"), "w") as f:
            json.dump({"property": "C17", "engine": "diwalk", "walk": "walk.json", "what": d["what"], "requests": d["prefix"][-3:]}, f, indent=1)
        what = "request sequence ... %s: %s" % (" ; ".join(d["prefix"][-2:]), d["what"])
        kf = ctx.known_matching(lambda m: m.get("engine") == "diwalk" and m.get("what_contains", "\0") in d["what"])
        if kf:
            ctx.known_finding(kf, what)
        else:
            ctx.violation(rd, what)
    # ---- copy cases
    rc = tlc.run_tlc("DirectInvoke", "MC_DirectInvoke_copy.cfg", timeout=300, extra_args=["-dump", "states"], keep=True)
    ctx._tmp.append(rc.scratch)
    ctx.add_tlc(rc, "MC_DirectInvoke_copy.cfg")
    cases = []
    text = open(os.path.join(rc.scratch, "states.dump")).read()
    for block in re.split(r"\nState \d+:\n", "\n" + text):
        block = block.strip()
        if not block:
            continue
        st = tlaparse.to_jsonable(tlaparse.parse_state(block))
        c, o = st["cc"], st["out"]
        for mode in ("Buffered", "Streaming"):
            if mode == "Buffered" and c["limit"] == -1:
                continue
            if mode == "Buffered" and c["stallAt"] >= 0:
                continue        # only the streaming copy can be interrupted by a reset
            cases.append({"mode": mode, "limit": c["limit"], "size": c["size"], "chunk": c["chunk"],
                          "failAt": c["failAt"], "stallAt": c["stallAt"], "fnMode": c["fnMode"], "reset": bool(o["reset"]),
                          "class": o["class"], "forwarded": o["forwarded"], "rate": 0, "burst": 0})
    # rate bound: minimum rate and burst, payload of three bursts; and a reset during the throttled copy
    kb = 1024
    cases.append({"mode": "Streaming", "limit": -1, "size": 96 * kb, "chunk": 8 * kb, "failAt": -1, "stallAt": -1, "reset": False,
                  "class": "Complete", "forwarded": 96 * kb, "rate": 32 * kb, "burst": 32 * kb})
    cases.append({"mode": "Streaming", "limit": -1, "size": 400 * kb, "chunk": 16 * kb, "failAt": -1, "stallAt": -1, "reset": True,
                  "class": "Truncated", "forwarded": 0, "rate": 32 * kb, "burst": 32 * kb})
    # a refill quantum larger than the burst size: the burst still bounds what goes out at once
    cases.append({"mode": "Streaming", "limit": -1, "size": 256 * kb, "chunk": 16 * kb, "failAt": -1, "stallAt": -1, "reset": False,
                  "class": "Complete", "forwarded": 256 * kb, "rate": 1024 * kb, "burst": 32 * kb})
    cases.append({"mode": "Streaming", "limit": -1, "size": 192 * kb, "chunk": 64 * kb, "failAt": -1, "stallAt": -1, "reset": False,
                  "class": "Complete", "forwarded": 192 * kb, "rate": 768 * kb, "burst": 64 * kb})
    if not ctx.quick:
        cases.append({"mode": "Streaming", "limit": -1, "size": 300 * kb, "chunk": 64 * kb, "failAt": -1, "stallAt": -1, "reset": False,
                      "class": "Complete", "forwarded": 300 * kb, "rate": 64 * kb, "burst": 64 * kb})
    cf = os.path.join(rc.scratch, "copy.json")
    json.dump(cases, open(cf, "w"))
    cr = os.path.join(rc.scratch, "copyrep.json")
    p = run_vh(["dicopy", "-in", cf, "-out", cr], timeout=1200)
    if p.returncode != 0 or not os.path.exists(cr):
        raise Inconclusive("dicopy driver failed: %s" % p.stderr[-1500:])
    crep = json.load(open(cr))
    log("E2 copy: %d cases, %d rate checks, %d mismatches" % (crep["cases"], crep["rate_checks"], len(crep.get("mismatches") or [])))
    for i, m in enumerate((crep.get("mismatches") or [])[:4]):
        rd = ctx.replay_dir("copy-%d" % i)
        json.dump([m["case"]], open(os.path.join(rd, "copy.json"), "w"))
        with open(os.path.join(rd, "replay.json"), "w") as f:
            json.dump({"property": "C17", "engine": "dicopy", "what": m["what"], "case": m["case"]}, f, indent=1)
        ctx.violation(rd, "copy case %s: %s" % (json.dumps(m["case"]), m["what"]))
    ctx.coverage.update({
        "traces_validated_against_impl": rep["paths"] + crep["cases"],
        "evaluations": rep["steps"] + crep["cases"],
        "distinct_nontrivial": rep["edges_covered"] + crep["cases"],
        "rule": "parser: distinct edges of the DirectInvoke state graph confirmed on ReceiveDirectInvoke; copy: distinct TLC-enumerated cases",
        "exhaustive": rep["edges_covered"] == len(g.edges),
        "samples": (rep.get("samples") or []) + (crep.get("samples") or [])[:2],
        "walk": {"graph_nodes": len(g.nodes), "graph_edges": len(g.edges), "edges_confirmed": rep["edges_covered"]},
        "copy_cases": crep["cases"], "rate_checks": crep["rate_checks"],
    })
    ctx.assumptions += ["header values are one representative per class", "the rate bound (burst + completed refill ticks x quantum) is checked on write time stamps with 40 ms of slack",
                        "resets are injected once, 150 ms into a throttled or stalled copy"]
    if not ctx.violations and not ctx.known and rep["edges_covered"] != len(g.edges):
        raise Inconclusive("parser walk incomplete")


def replay(ctx, d, meta):
    build_harness()
    if meta.get("engine") == "diwalk":
        rp = os.path.join(d, "report.rerun.json")
        run_vh(["diwalk", "-in", os.path.join(d, meta["walk"]), "-out", rp, "-maxdiv", "1"], timeout=300)
        rep = json.load(open(rp))
        ctx.coverage.update({"states": 1, "transitions": rep["steps"], "traces_validated_against_impl": rep["paths"], "samples": [meta.get("requests")]})
        for dv in rep.get("divergences") or []:
            ctx.violation(d, dv["what"])
    else:
        cr = os.path.join(d, "copyrep.rerun.json")
        run_vh(["dicopy", "-in", os.path.join(d, "copy.json"), "-out", cr], timeout=300)
        crep = json.load(open(cr))
        ctx.coverage.update({"states": 1, "transitions": 1, "traces_validated_against_impl": crep["cases"], "samples": [meta.get("case")]})
        for m in crep.get("mismatches") or []:
            ctx.violation(d, m["what"])
