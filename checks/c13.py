"""C13 - Extensions API: registration rules and lifecycle automaton.

Scenarios (E4): seeded random call sequences per extension over {register(events, name, features), next,
init/error, exit/error} with known / missing / invalid / unknown identifiers, for 1..3 external and up to
2 internal extensions interleaved with the runtime's polls and invocations; a directory with eleven
extension files (limit of ten).  Every status, error type and the echoed registration data must be what
the agent automata and the registration service of Rapid prescribe (E3); a refused call that changed an
agent's state or a barrier count shows up in the following answers.
"""
import random

from scen import Scn
import scenario_common as sc
import mcsim

EVSETS = [[], ["INVOKE"], ["SHUTDOWN"], ["INVOKE", "SHUTDOWN"], ["INVOKE", "BOGUS"], ["SHUTDOWN", "INVOKE", "INVOKE"]]
IDC = ["", "", "", "", "missing", "invalid", "unknown"]


def one(sid, rnd, nx, length):
    exts = ["e%d" % (i + 1) for i in range(nx)]
    s = Scn(sid, ext=exts, timeout_ms=300, accountId="123456789012")
    s.meta(family="extapi")
    s.init()
    seen = set()
    inv = None
    ints = ["i1", "i2"]
    for step in range(length):
        r = rnd.random()
        if r < 0.10:
            # the runtime (if it has been started) polls
            s.poll("rt")
            continue
        if r < 0.16 and inv is None:
            inv = s.invoke(size=3, seed=step)
            s.sleep(1)
            continue
        internal = rnd.random() < 0.25
        who = ("int:" + rnd.choice(ints)) if internal else ("ext:" + rnd.choice(exts))
        if not internal and who not in seen:
            s.await_exec(base=who[4:])
            seen.add(who)
        a = rnd.random()
        if a < 0.35:
            kw = {}
            if rnd.random() < 0.15:
                kw["name"] = rnd.choice(["-", rnd.choice(exts), "i1", "zz"])
            if rnd.random() < 0.3:
                kw["features"] = rnd.choice(["accountId", "accountId, other", "nothing"])
            if rnd.random() < 0.08:
                kw["body"] = rnd.choice(["{not json", '{"events":["INVOKE"],"configurationKeys":["a"]}'])
            s.register(who, rnd.choice(EVSETS), **kw)
        elif a < 0.70:
            t = s.call(who, "next", async_=True, id=rnd.choice(IDC))
            s.settle(who, t)
        elif a < 0.85:
            s.call(who, "exterror", which="init", id=rnd.choice(IDC), errType=rnd.choice(["Extension.Boom", "Extension.Boom", ""]))
        else:
            s.call(who, "exterror", which="exit", id=rnd.choice(IDC), errType=rnd.choice(["Extension.Bye", "Extension.Bye", ""]))
    if inv is not None:
        s.wait(inv)
    return s.done()


def eleven(sid):
    names = ["e%d" % i for i in range(1, 10)] + ["f1", "f2"]
    s = Scn(sid, ext=names, timeout_ms=300)
    s.meta(family="extapi-eleven")
    s.init()
    for n in names[:10]:
        s.await_exec(base=n)
        s.register("ext:" + n, ["INVOKE"])
    inv = s.invoke(size=2, seed=1)
    s.wait(inv)
    return s.done()


def live(sid, rnd, nx):
    """calls that are illegal or final while the extension's poll is parked in a running environment:
    the answer of the parked poll at the next invocation shows whether the agent's state was kept"""
    exts = ["e%d" % (i + 1) for i in range(nx)]
    subs = {e: rnd.choice([["INVOKE"], ["INVOKE", "SHUTDOWN"]]) for e in exts}
    ints = {"i1": ["INVOKE"]} if rnd.random() < 0.5 else {}
    s = Scn(sid, ext=exts, timeout_ms=300, onTerm={e: "exit" for e in exts})
    s.meta(family="extapi-live")
    tags = s.boot(subs, ints)
    s.round(tags, subs, ints)
    parties = ["ext:" + e for e in exts] + ["int:" + i for i in ints]
    for _ in range(rnd.randrange(1, 4)):
        who = rnd.choice(parties)
        a = rnd.random()
        if a < 0.35:
            s.call(who, "exterror", which="exit", errType="Extension.Bye")
        elif a < 0.55:
            s.call(who, "exterror", which="init", errType="Extension.Late")
        elif a < 0.75:
            s.register(who, ["INVOKE"])
        elif a < 0.9:
            s.call(who, "next", async_=True)      # a second poll of the same extension while the first is parked
            s.sleep(2)
        else:
            s.call(who, "exterror", which="exit", errType="")
    it = s.invoke(size=3, seed=5)
    s.wait(it)
    return s.done()


def limit(sid, nx):
    """registrations up to and beyond the limit of ten extensions (external + internal)"""
    names = (["e%d" % i for i in range(1, 10)] + ["f1", "f2"])[:nx]
    s = Scn(sid, ext=names, timeout_ms=300)
    s.meta(family="extapi-limit")
    s.init()
    for n in names:
        s.await_exec(base=n)
        s.register("ext:" + n, ["INVOKE"])
    if nx <= 10:
        for j in range(1, 13 - nx):
            s.register("int:n%d" % j, ["INVOKE"])
            if j == 1:
                s.register("int:n1", [])        # same name twice
            if names and j == 2:
                s.register("int:" + names[0], ["INVOKE"])   # name of an external extension: second registration of it
    return s.done()


def after_reset(sid, with_internal):
    """identifiers do not survive a reset: after a timeout reset and the re-registration of everybody, calls that carry an
    identifier of the previous generation are refused (403, unknown identifier) and change nothing - the invocation in
    flight is not released early, no fault is recorded"""
    subs = {"e1": ["INVOKE"]}
    ints = {"i1": ["INVOKE"]} if with_internal else {}
    s = Scn(sid, ext=["e1"], timeout_ms=400, opWaitMs=6000)
    s.meta(family="extapi", kind="after-reset", internal=with_internal)
    tags = s.boot(subs, ints)
    s.round(tags, subs, ints)
    it = s.invoke(size=3, seed=5)
    s.wait(tags["rt"])
    for w in list(tags):
        if w != "rt":
            s.wait(tags[w])
    s.wait(it)                          # nobody answers: timeout, reset
    m = s.mark()
    it = s.invoke(size=4, seed=6)
    s.await_exec(base="e1", since=m)
    s.register("ext:e1", subs["e1"])
    s.await_exec(kind="rt", since=m)
    for n, evs in ints.items():
        s.register("int:" + n, evs)
    tags = {"ext:e1": s.poll("ext:e1")}
    for n in ints:
        tags["int:" + n] = s.poll("int:" + n)
    tags["rt"] = s.call("rt", "next", async_=True)
    s.wait(tags["rt"])
    for w in list(tags):
        if w != "rt":
            s.wait(tags[w])
    # the invocation is in flight (the extensions are busy with its event): calls with the old identifiers
    s.call("ext:e1", "next", id="old")
    s.call("ext:e1", "exterror", which="exit", id="old", errType="Extension.Stale")
    s.call("ext:e1", "exterror", which="init", id="old", errType="Extension.Stale")
    for n in ints:
        s.call("int:" + n, "next", id="old")
    s.call("rt", "response", id="current", body="after-reset")
    for w in ["rt"] + [w for w in tags if w != "rt"]:
        tags[w] = s.poll(w)
    s.wait(it)
    s.round(tags, subs, ints)
    return s.done()


def scenarios(ctx):
    rnd = random.Random(ctx.seed * 104729 + 13)
    n = 60 if ctx.quick else 600
    out = [one("c13-%03d" % i, rnd, 1 + i % 3, rnd.randrange(6, 24)) for i in range(n)]
    out.append(eleven("c13-eleven"))
    for i in range(12 if ctx.quick else 150):
        out.append(live("c13-live%03d" % i, rnd, 1 + i % 2))
    for nx in (0, 1, 5, 9, 10):
        out.append(limit("c13-limit%d" % nx, nx))
    out.append(after_reset("c13-ar1", False))
    out.append(after_reset("c13-ar2", True))
    return out


def run(ctx):
    ctx.level = "model_checking"
    ctx.assumptions += sc.ASSUME
    sc.run_families(ctx, scenarios(ctx), "extapi")
    # call programs generated by TLC (simulated behaviours of spec/MC_Rapid.tla with API misuse), lib/mcsim.py
    sims = mcsim.scenarios("c13s", "sim", 8 if ctx.quick else 100, ctx.seed + 7, depth=140)
    ctx.coverage["tlc_simulated_scenarios"] = len(sims)
    sc.run_families(ctx, sims, "tlc-simulated")
    ctx.coverage["exhaustive"] = False


replay = sc.replay
