"""C07 - no client behaviour can wedge or crash the emulator.

Scenarios (E4): seeded random programs of the runtime and up to two external (plus an internal) extensions
drawn from the whole Runtime / Extensions API alphabet including misuse (stale and unknown ids, missing
identifiers, illegal calls, double polls, unknown routes), stalls, exits with code 0 / non-zero / signal at
any point, over one to three faulty generations; then one flushing invocation and a healthy one.
Verdicts: the harness process must not die (a crash of the emulator is reported directly); every
invocation gets exactly one outcome within timeout + reset allowance (an invocation without outcome is an
unexplainable event); every body a caller receives is the body posted for its invocation or a platform
error / timeout (E3: the trace must be a behaviour of Rapid); after the flushing invocation the healthy
invocation must be served ("at most one further invocation fails").
"""
import random

from scen import Scn
import scenario_common as sc
import mcrapid
import mcsim

EVSETS = [[], ["INVOKE"], ["SHUTDOWN"], ["INVOKE", "SHUTDOWN"], ["INVOKE", "BOGUS"]]
IDC = ["", "", "", "missing", "invalid", "unknown"]
ROUTES = [("GET", "/2018-06-01/runtime/unknown", "404"), ("POST", "/2018-06-01/runtime/invocation/next", "405"),
          ("GET", "/2018-06-01/runtime/restore/next", "404")]


def one(sid, rnd, nx, gens):
    exts = ["e%d" % (i + 1) for i in range(nx)]
    s = Scn(sid, ext=exts, timeout_ms=300, onTerm={e: rnd.choice(["exit", "ignore"]) for e in exts + ["runtime"]},
            opWaitMs=9000, exitLagMs=rnd.choice([0, 0, 10]))
    s.meta(family="chaos")
    s.init()
    inv = None
    parties = ["rt"] + ["ext:" + e for e in exts] + ["int:i1"]
    for g in range(gens):
        for step in range(rnd.randrange(6, 18)):
            who = rnd.choice(parties)
            r = rnd.random()
            if r < 0.10 and inv is None:
                inv = s.invoke(size=rnd.choice([0, 3, 200]), seed=step + 100 * g)
                s.sleep(1)
            elif r < 0.16:
                p = rnd.choice(["rt"] + ["ext:" + e for e in exts])
                ex = rnd.choice([dict(code=0), dict(code=2), dict(signal=9), dict(signal=15)])
                s.exit(p, **ex)
                s.sleep(2)
            elif who == "rt":
                a = rnd.random()
                if a < 0.40:
                    t = s.call("rt", "next", async_=True)
                    s.settle("rt", t)
                elif a < 0.62:
                    s.call("rt", "response", id=rnd.choice(["current", "current", "stale:1", "unknown"]), body="b%d-%d" % (g, step))
                elif a < 0.74:
                    s.call("rt", "error", id=rnd.choice(["current", "stale:1", "unknown"]), body='{"errorMessage":"x"}',
                           errType=rnd.choice(["Function.X", "bad type"]))
                elif a < 0.84:
                    s.call("rt", "initerror", body='{"errorMessage":"i"}', errType="Runtime.I")
                else:
                    m, p, cls = rnd.choice(ROUTES)
                    s.call("rt", "route", method=m, path=p, name=cls)
            else:
                a = rnd.random()
                if a < 0.35:
                    kw = {}
                    if rnd.random() < 0.1:
                        kw["name"] = rnd.choice(["-", "zz"] + exts)
                    s.register(who, rnd.choice(EVSETS), **kw)
                elif a < 0.75:
                    t = s.call(who, "next", async_=True, id=rnd.choice(IDC))
                    s.settle(who, t)
                else:
                    s.call(who, "exterror", which=rnd.choice(["init", "exit"]), id=rnd.choice(IDC),
                           errType=rnd.choice(["Extension.E", ""]))
        if inv is not None:
            s.wait(inv)
            inv = None
        # end of a faulty generation: a flushing invocation nobody serves (times out or fails, then reset)
        fl = s.invoke(size=1, seed=999)
        s.wait(fl)
    # healthy from now on: at most the flushing invocation failed, this one must be served
    subs = {e: rnd.choice([["INVOKE"], ["INVOKE", "SHUTDOWN"], []]) for e in exts}
    s.op(op="mark", name="HEALTHY")
    tags = s.recover(subs)
    s.round(tags, subs)
    return s.done()


def late_exit(sid, with_ext, when):
    """a process that does not go away in time: the exit notification of the killed runtime (and extension) of the
    first generation comes 2.6 s after the Kill - after the 2 s the reset waits for it.  The reset gives up waiting; the
    notification arrives later (when == "idle": while nothing is going on; "busy": during the next invocation) and
    must not bring the emulator down: at most one further invocation fails, the one after it is served"""
    exts = ["e1"] if with_ext else []
    subs = {e: ["INVOKE"] for e in exts}
    s = Scn(sid, ext=exts, timeout_ms=300, opWaitMs=9000, exitLagMs=2600, exitLagGens=1,
            onTerm={"runtime": "ignore", "e1": "ignore"})
    s.meta(family="chaos", kind="late-exit", ext=with_ext, when=when)
    tags = s.boot(subs)
    it = s.invoke(size=4, seed=1)
    s.wait(tags["rt"])
    for e in exts:
        s.wait(tags["ext:" + e])
    s.wait(it)                      # times out; the reset's wait for the exits times out as well
    if when == "idle":
        s.sleep(1200)               # the late notifications arrive
    # the flushing invocation: may fail
    m = s.mark()
    it = s.invoke(size=5, seed=2)
    for e in exts:
        s.await_exec(base=e, since=m, soft_ms=700)
    s.await_exec(kind="rt", since=m, soft_ms=700)
    s.wait(it)
    if when == "busy":
        s.sleep(1200)
    # the one after it is served
    s.recover(subs)
    return s.done()


def scenarios(ctx):
    rnd = random.Random(ctx.seed * 7 + 7)
    n = 40 if ctx.quick else 400
    return [one("c07-%03d" % i, rnd, i % 3, 1 + (i % 3)) for i in range(n)]


def run(ctx):
    ctx.level = "model_checking"
    # E1: the property predicates as invariants of the composite (spec/MC_Rapid.tla)
    mcrapid.check(ctx, ['NoCrash'])
    ctx.assumptions += sc.ASSUME
    sc.run_families(ctx, scenarios(ctx) + [late_exit("c07-late1", False, "idle"), late_exit("c07-late2", True, "idle"), late_exit("c07-late3", False, "busy")], "chaos", require_done=True)
    # environment programs generated by TLC: simulated behaviours of spec/MC_Rapid.tla (with and without API misuse,
    # bounds beyond the exhaustive configurations) turned into scripts (lib/mcsim.py) and run on the real stack
    n = 10 if ctx.quick else 120
    sims = mcsim.scenarios("c07a", "sim", n, ctx.seed, depth=140) + mcsim.scenarios("c07b", "simok", n, ctx.seed + 1, depth=140)
    ctx.coverage["tlc_simulated_scenarios"] = len(sims)
    sc.run_families(ctx, sims, "tlc-simulated", require_done=True)
    ctx.coverage["exhaustive"] = False


replay = sc.replay
