// Package supv drives a ProcessSupervisor (the real LocalSupervisor with /bin/sh children, or the
// harness's fake) with a seeded random concurrent program and records a black-box trace for
// spec/Trace_Supervisor.tla (property C19).
package supv

import (
	"context"
	"fmt"
	"io"
	"math/rand"
	"os"
	"path/filepath"
	"strconv"
	"strings"
	"sync"
	"syscall"
	"time"

	"go.amzn.com/lambda/supervisor"
	supvmodel "go.amzn.com/lambda/supervisor/model"
	"verifharness/rec"
)

// behaviours of a child process
var Behaviours = []string{"exit0", "exit3", "exit137", "sigusr1", "trapterm", "ignoreterm", "fork", "forkignore", "orphan0", "orphanq"}

func script(beh, dir, name string, delayMs int) string {
	pre := fmt.Sprintf("echo $$ > %s/%s.pid; ", dir, name)
	d := fmt.Sprintf("%d.%03d", delayMs/1000, delayMs%1000)
	switch beh {
	case "exit0":
		return pre + "sleep " + d + "; echo bye; exit 0"
	case "exit3":
		return pre + "sleep " + d + "; echo bye; exit 3"
	case "exit137":
		return pre + "sleep " + d + "; exit 137"
	case "sigusr1":
		return pre + "sleep " + d + "; kill -USR1 $$; sleep 5"
	case "trapterm":
		return pre + "trap 'exit 7' TERM; sleep 20 & wait $!; exit 7"
	case "ignoreterm":
		return pre + "trap '' TERM; sleep 20; exit 0"
	case "fork":
		return pre + fmt.Sprintf("sleep 30 & echo $! > %s/%s.c1; sleep 30 & echo $! > %s/%s.c2; wait; exit 0", dir, name, dir, name)
	case "orphan0":
		// the leader exits 0; a child it leaves behind (same process group) keeps the inherited output pipe open
		return pre + fmt.Sprintf("(sleep 30; echo late) & echo $! > %s/%s.c1; sleep %s; exit 0", dir, name, d)
	case "orphanq":
		// the same, but the child does not hold the leader's output: the leader's exit is noticed at once
		return pre + fmt.Sprintf("(sleep 30) >/dev/null 2>&1 & echo $! > %s/%s.c1; sleep %s; exit 0", dir, name, d)
	case "forkignore":
		return pre + fmt.Sprintf("trap '' TERM; sleep 30 & echo $! > %s/%s.c1; wait; exit 0", dir, name)
	}
	return pre + "exit 0"
}

func readPid(path string) int {
	for i := 0; i < 200; i++ {
		b, err := os.ReadFile(path)
		if err == nil && len(strings.TrimSpace(string(b))) > 0 {
			p, _ := strconv.Atoi(strings.TrimSpace(string(b)))
			return p
		}
		time.Sleep(time.Millisecond)
	}
	return 0
}

// gone: the process does not exist any more (a zombie that nobody reaps counts as gone)
func gone(pid int) bool {
	if pid <= 0 {
		return true
	}
	if err := syscall.Kill(pid, 0); err != nil {
		return true
	}
	b, err := os.ReadFile(fmt.Sprintf("/proc/%d/stat", pid))
	if err != nil {
		return true
	}
	if i := strings.LastIndex(string(b), ")"); i >= 0 && len(b) > i+2 {
		return b[i+2] == 'Z'
	}
	return false
}

type Options struct {
	Seed  int64
	Procs int
	// Burst: every process exits by itself at once and nobody reads the events channel for PauseReaderMs: every
	// termination event must still arrive once the reader starts (events may wait, they may not get lost)
	Burst         bool
	PauseReaderMs int
	// Fixed: behaviours (and delays) of the first processes, without random operations - e.g. a leader that exits and
	// leaves a child holding its output, met only by the Kill of the clean-up (even index) or by a Terminate (odd index)
	Fixed []FixedProc
	Fake  func(r *rec.Recorder) supvmodel.ProcessSupervisor // nil: the real LocalSupervisor
}

// FixedProc is a scripted process of Options.Fixed.
type FixedProc struct {
	Beh   string
	Delay int
	// KillAtMs > 0: one Kill that many ms after the start (e.g. while the last output of a process that has already
	// exited is still being written by a slow log writer)
	KillAtMs int
	// KillPast: that Kill carries a deadline that is already over
	KillPast bool
	// SinkMs > 0: the log writer of this process takes that long per write
	SinkMs int
}

// Run executes one random program and returns the recorded events.
func Run(opt Options) []rec.Event {
	r := rec.New()
	rnd := rand.New(rand.NewSource(opt.Seed))
	dir, _ := os.MkdirTemp("", "verif-supv-")
	defer os.RemoveAll(dir)
	var sv supvmodel.ProcessSupervisor
	real := opt.Fake == nil
	if real {
		sv = supervisor.NewLocalSupervisor()
	} else {
		sv = opt.Fake(r)
	}
	events, _ := sv.Events(context.Background(), &supvmodel.EventsRequest{Domain: "runtime"})
	var evmu sync.Mutex
	got := map[string]int{}
	stop := make(chan struct{})
	go func() {
		if opt.PauseReaderMs > 0 {
			time.Sleep(time.Duration(opt.PauseReaderMs) * time.Millisecond)
		}
		for {
			select {
			case ev := <-events:
				t := ev.Event.ProcessTerminated()
				if t == nil {
					r.Emit("sup", "Event", "name", "", "status", "not-a-termination")
					continue
				}
				status := ""
				if t.Exited() != nil {
					status = fmt.Sprintf("exit:%d", *t.Exited())
				} else if t.Signaled() != nil {
					status = fmt.Sprintf("signal:%d", *t.Signaled())
				}
				evmu.Lock()
				got[*t.Name]++
				evmu.Unlock()
				r.Emit("sup", "Event", "name", *t.Name, "status", status)
			case <-stop:
				return
			}
		}
	}()
	r.Emit("drv", "Begin", "real", real, "procs", opt.Procs)
	var wg sync.WaitGroup
	names := []string{}
	for i := 0; i < opt.Procs; i++ {
		name := fmt.Sprintf("p%d", i+1)
		names = append(names, name)
		beh := Behaviours[rnd.Intn(len(Behaviours))]
		delay := []int{0, 30, 80, 5000}[rnd.Intn(4)]
		ops := rnd.Intn(5)
		if opt.Burst {
			beh, delay, ops = []string{"exit0", "exit3", "exit137"}[rnd.Intn(3)], 0, 0
		}
		killAt, sinkMs, killPast := 0, 0, false
		if i < len(opt.Fixed) {
			beh, delay, ops, killAt, sinkMs = opt.Fixed[i].Beh, opt.Fixed[i].Delay, 0, opt.Fixed[i].KillAtMs, opt.Fixed[i].SinkMs
			killPast = opt.Fixed[i].KillPast
		}
		seed := rnd.Int63()
		idx := i
		wg.Add(1)
		go func() {
			defer wg.Done()
			lr := rand.New(rand.NewSource(seed))
			sc := script(beh, dir, name, delay)
			r.Emit(name, "ExecCall", "name", name, "beh", beh, "delayMs", delay)
			// output through a pipe and a copying goroutine (as with the emulator's log writers), or none
			var outw io.Writer
			if beh == "orphan0" || idx%2 == 0 {
				sk := &sink{}
				if idx%4 == 0 {
					// a slow log writer: the last words of a process are still being written when it is already gone
					// (exited and reaped, its exit not yet noticed by the supervisor) - a Kill in that window succeeds
					sk.delay = 250 * time.Millisecond
				}
				if sinkMs > 0 {
					sk.delay = time.Duration(sinkMs) * time.Millisecond
				}
				outw = sk
			}
			err := sv.Exec(context.Background(), &supvmodel.ExecRequest{Domain: "runtime", Name: name, Path: "/bin/sh", Args: []string{"-c", sc},
				Env: &map[string]string{"PATH": "/usr/bin:/bin"}, StdoutWriter: outw, StderrWriter: outw})
			t0exec := time.Now()
			r.Emit(name, "ExecRet", "name", name, "err", errs(err))
			if err != nil {
				return
			}
			pid := 0
			if real {
				pid = readPid(filepath.Join(dir, name+".pid"))
			}
			for k := 0; k < ops; k++ {
				time.Sleep(time.Duration(lr.Intn(60)) * time.Millisecond)
				switch lr.Intn(3) {
				case 0:
					t0 := time.Now()
					r.Emit(name, "TermCall", "name", name)
					err := sv.Terminate(context.Background(), &supvmodel.TerminateRequest{Domain: "runtime", Name: name})
					r.Emit(name, "TermRet", "name", name, "err", errs(err), "durMs", time.Since(t0).Milliseconds())
				case 1:
					past := lr.Intn(6) == 0
					dl := time.Now().Add(3 * time.Second)
					if past {
						dl = time.Now().Add(-time.Second)
					}
					r.Emit(name, "KillCall", "name", name, "past", past)
					err := sv.Kill(context.Background(), &supvmodel.KillRequest{Domain: "runtime", Name: name, Deadline: dl})
					allGone := true
					if real && err == nil {
						for _, f := range []string{".pid", ".c1", ".c2"} {
							p := name + f
							if _, e := os.Stat(filepath.Join(dir, p)); e == nil || f == ".pid" {
								q := pid
								if f != ".pid" {
									q = readPid(filepath.Join(dir, p))
								}
								ok := gone(q)
								if f != ".pid" {
									// the group has been sent SIGKILL; the death of a member other than the leader is
									// asynchronous by a scheduling delay: allow it 250 ms
									for i := 0; i < 250 && !ok; i++ {
										time.Sleep(time.Millisecond)
										ok = gone(q)
									}
								}
								if !ok {
									allGone = false
								}
							}
						}
					}
					r.Emit(name, "KillRet", "name", name, "err", errs(err), "gone", allGone, "past", past)
				case 2:
					// operations on names that were never started
					r.Emit(name, "KillCall", "name", "ghost-"+name, "past", false)
					err := sv.Kill(context.Background(), &supvmodel.KillRequest{Domain: "runtime", Name: "ghost-" + name, Deadline: time.Now().Add(time.Second)})
					r.Emit(name, "KillRet", "name", "ghost-"+name, "err", errs(err), "gone", true, "past", false)
				}
			}
			// (every other process of behaviour orphan0 is left to the Kill of the clean-up: a group whose leader was
			//  reaped and whose member still holds the output must be killed by it, F-C19-2)
			if killAt > 0 {
				if d := time.Duration(killAt)*time.Millisecond - time.Since(t0exec); d > 0 {
					time.Sleep(d)
				}
				dl := time.Now().Add(3 * time.Second)
				if killPast {
					dl = time.Now().Add(-time.Second)
				}
				r.Emit(name, "KillCall", "name", name, "past", killPast)
				err := sv.Kill(context.Background(), &supvmodel.KillRequest{Domain: "runtime", Name: name, Deadline: dl})
				r.Emit(name, "KillRet", "name", name, "err", errs(err), "gone", !real || err != nil || gone(pid), "past", killPast)
			}
			if real && (beh == "fork" || beh == "orphanq" || (beh == "orphan0" && idx%2 == 1)) && !opt.Burst {
				// Terminate delivers SIGTERM to the whole group - also when the leader has exited by then and only
				// members are left.  Observed 150 ms after the start at the earliest (every member has its own
				// signal dispositions by then) and 400 ms after the call (no member of these behaviours ignores SIGTERM).
				if d := 150*time.Millisecond - time.Since(t0exec); d > 0 {
					time.Sleep(d)
				}
				t0 := time.Now()
				r.Emit(name, "TermCall", "name", name)
				err := sv.Terminate(context.Background(), &supvmodel.TerminateRequest{Domain: "runtime", Name: name})
				r.Emit(name, "TermRet", "name", name, "err", errs(err), "durMs", time.Since(t0).Milliseconds())
				time.Sleep(400 * time.Millisecond)
				membersGone := true
				for _, f := range []string{".c1", ".c2"} {
					if _, e := os.Stat(filepath.Join(dir, name+f)); e == nil {
						if !gone(readPid(filepath.Join(dir, name+f))) {
							membersGone = false
						}
					}
				}
				r.Emit(name, "TermObs", "name", name, "gone", membersGone)
			}
		}()
	}
	wg.Wait()
	if opt.PauseReaderMs > 0 {
		time.Sleep(time.Duration(opt.PauseReaderMs+100) * time.Millisecond)
	}
	// clean up: everything still running is killed, then all termination events must arrive
	for _, name := range names {
		r.Emit(name, "KillCall", "name", name, "past", false)
		err := sv.Kill(context.Background(), &supvmodel.KillRequest{Domain: "runtime", Name: name, Deadline: time.Now().Add(3 * time.Second)})
		r.Emit(name, "KillRet", "name", name, "err", errs(err), "gone", true, "past", false)
	}
	deadline := time.Now().Add(3 * time.Second)
	for time.Now().Before(deadline) {
		evmu.Lock()
		n := len(got)
		evmu.Unlock()
		if n >= len(names) {
			break
		}
		time.Sleep(5 * time.Millisecond)
	}
	time.Sleep(50 * time.Millisecond) // a second event for some process would show up here
	close(stop)
	r.Emit("drv", "End")
	return r.Events()
}

// sink is an io.Writer that is not a file: os/exec copies the child's output into it through a pipe
type sink struct {
	mu    sync.Mutex
	n     int
	delay time.Duration
}

func (s *sink) Write(b []byte) (int, error) {
	if s.delay > 0 {
		time.Sleep(s.delay)
	}
	s.mu.Lock()
	s.n += len(b)
	s.mu.Unlock()
	return len(b), nil
}

func errs(err error) string {
	if err == nil {
		return ""
	}
	if se, ok := err.(*supvmodel.SupervisorError); ok {
		return string(se.Kind)
	}
	return "error"
}
