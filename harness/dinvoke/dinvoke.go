// Package dinvoke replays walks of spec/DirectInvoke.tla on the real
// directinvoke.ReceiveDirectInvoke and exercises the response copy
// (classification, faithful forwarding, rate bound) - property C17, engine E2.
package dinvoke

import (
	"bytes"
	"context"
	"encoding/json"
	"errors"
	"fmt"
	"io"
	"net"
	"net/http"
	"net/http/httptest"
	"strings"
	"sync"
	"time"

	"github.com/go-chi/chi"
	"go.amzn.com/lambda/core/directinvoke"
	"go.amzn.com/lambda/interop"
	"verifharness/stack"
	"verifharness/walkfile"
)

type node struct {
	Pkg struct {
		Max, Mode, Rate, Burst string
	} `json:"pkg"`
	Out struct {
		Err       string `json:"err"`
		Mode      string `json:"mode"`
		Max       string `json:"max"`
		Rate      string `json:"rate"`
		Burst     string `json:"burst"`
		Streaming bool   `json:"streaming"`
	} `json:"out"`
}

type reqClass struct {
	Mps, Irm, Rate, Burst, Tok string
}

const (
	rateOK  = 40 * 1024
	burstOK = 64 * 1024
)

func maxVal(c string) int64 {
	switch c {
	case "100":
		return 100
	case "-1":
		return -1
	}
	return interop.MaxPayloadSize
}

var token = interop.Token{ReservationToken: "res-tok", InvokeID: "inv-1", VersionID: "7", FunctionTimeout: time.Second, InvackDeadlineNs: 1 << 62}

func build(rc reqClass) *http.Request {
	r := httptest.NewRequest("POST", "/invoke/res-tok", bytes.NewReader([]byte("payload")))
	h := r.Header
	switch rc.Mps {
	case "100":
		h.Set("MaxPayloadSize", "100")
	case "-1":
		h.Set("MaxPayloadSize", "-1")
	case "bad":
		h.Set("MaxPayloadSize", "-2")
	}
	switch rc.Irm {
	case "buffered":
		h.Set("InvokeResponseMode", "Buffered")
	case "streaming":
		h.Set("InvokeResponseMode", "streaming")
	case "bad":
		h.Set("InvokeResponseMode", "chunky")
	}
	switch rc.Rate {
	case "ok":
		h.Set("ResponseBandwidthRate", fmt.Sprint(rateOK))
	case "bad":
		h.Set("ResponseBandwidthRate", "12")
	}
	switch rc.Burst {
	case "ok":
		h.Set("ResponseBandwidthBurstSize", fmt.Sprint(burstOK))
	case "bad":
		h.Set("ResponseBandwidthBurstSize", "99999999999")
	}
	id, res, ver := token.InvokeID, token.ReservationToken, token.VersionID
	switch rc.Tok {
	case "badid":
		id = "other"
	case "badres":
		res = "other"
	case "badver":
		ver = "8"
	}
	h.Set("Invoke-Id", id)
	h.Set("Invoked-Function-Version", ver)
	rctx := chi.NewRouteContext()
	rctx.URLParams.Add("reservationtoken", res)
	return r.WithContext(context.WithValue(r.Context(), chi.RouteCtxKey, rctx))
}

func pkgNow() (string, string, string, string) {
	mx := "def"
	switch directinvoke.MaxDirectResponseSize {
	case 100:
		mx = "100"
	case -1:
		mx = "-1"
	case interop.MaxPayloadSize:
		mx = "def"
	default:
		mx = fmt.Sprint(directinvoke.MaxDirectResponseSize)
	}
	rate := "def"
	if directinvoke.ResponseBandwidthRate == rateOK {
		rate = "r1"
	} else if directinvoke.ResponseBandwidthRate != interop.ResponseBandwidthRate {
		rate = fmt.Sprint(directinvoke.ResponseBandwidthRate)
	}
	burst := "def"
	if directinvoke.ResponseBandwidthBurstSize == burstOK {
		burst = "b1"
	} else if directinvoke.ResponseBandwidthBurstSize != interop.ResponseBandwidthBurstSize {
		burst = fmt.Sprint(directinvoke.ResponseBandwidthBurstSize)
	}
	return mx, string(directinvoke.InvokeResponseMode), rate, burst
}

func reset() {
	directinvoke.MaxDirectResponseSize = interop.MaxPayloadSize
	directinvoke.InvokeResponseMode = interop.InvokeResponseModeBuffered
	directinvoke.ResponseBandwidthRate = interop.ResponseBandwidthRate
	directinvoke.ResponseBandwidthBurstSize = interop.ResponseBandwidthBurstSize
}

// ReplayWalk executes every path of the DirectInvoke graph on the real parser.
func ReplayWalk(f *walkfile.File, maxDiv int) *walkfile.Report {
	stack.Quiet()
	rep := &walkfile.Report{Actions: map[string]int{}, EdgesTotal: len(f.Edges)}
	nodes := make([]node, len(f.Nodes))
	for i, raw := range f.Nodes {
		if err := json.Unmarshal(raw, &nodes[i]); err != nil {
			rep.Error = err.Error()
			return rep
		}
	}
	covered := make([]bool, len(f.Edges))
	for pi, p := range f.Paths {
		if len(rep.Divergences) >= maxDiv {
			break
		}
		rep.Paths++
		reset()
		var prefix []string
		for si, ei := range p.Edges {
			e := f.Edges[ei]
			var rc reqClass
			var m map[string]string
			if len(e.Args) != 1 || json.Unmarshal(e.Args[0], &m) != nil {
				rep.Error = "cannot decode request class of edge " + e.Label()
				return rep
			}
			rc = reqClass{Mps: m["mps"], Irm: m["irm"], Rate: m["rate"], Burst: m["burst"], Tok: m["tok"]}
			w := httptest.NewRecorder()
			inv, err := directinvoke.ReceiveDirectInvoke(w, build(rc), token)
			want := &nodes[e.Dst]
			what := ""
			gotErr := ""
			if err != nil {
				gotErr = err.Error()
			}
			mx, mode, rate, burst := pkgNow()
			switch {
			case gotErr != want.Out.Err:
				what = fmt.Sprintf("result %q, specification says %q", gotErr, want.Out.Err)
			case err == nil && string(inv.InvokeResponseMode) != want.Out.Mode:
				what = fmt.Sprintf("parsed response mode %s, specification says %s", inv.InvokeResponseMode, want.Out.Mode)
			case err == nil && mx != want.Out.Max:
				what = fmt.Sprintf("payload limit %s, specification says %s", mx, want.Out.Max)
			case err == nil && want.Out.Streaming && (rate != want.Out.Rate || burst != want.Out.Burst):
				what = fmt.Sprintf("rate/burst %s/%s, specification says %s/%s", rate, burst, want.Out.Rate, want.Out.Burst)
			case mx != want.Pkg.Max || mode != want.Pkg.Mode:
				what = fmt.Sprintf("package state after the request max=%s mode=%s, specification says max=%s mode=%s", mx, mode, want.Pkg.Max, want.Pkg.Mode)
			case err != nil && w.Code != 400:
				what = fmt.Sprintf("refused request answered with status %d", w.Code)
			case err != nil && w.Header().Get("Error-Type") != want.Out.Err:
				what = "Error-Type header " + w.Header().Get("Error-Type")
			case err == nil && want.Out.Streaming != (len(w.Header().Values("Trailer")) == 3):
				what = fmt.Sprintf("trailer announcement %v does not match streaming=%v", w.Header().Values("Trailer"), want.Out.Streaming)
			}
			rep.Steps++
			rep.Actions[rc.Tok+"/"+rc.Irm]++
			b, _ := json.Marshal(rc)
			prefix = append(prefix, string(b))
			if what != "" {
				rep.Divergences = append(rep.Divergences, walkfile.Divergence{Path: pi, Step: si, Prefix: append([]string{}, prefix...),
					Action: string(b), Expected: f.Nodes[e.Dst], Observed: map[string]string{"err": gotErr, "max": mx, "mode": mode, "rate": rate, "burst": burst},
					What: what, Init: f.Nodes[p.Init]})
				break
			}
			covered[ei] = true
			if len(rep.Samples) < 2 && si == len(p.Edges)-1 && len(prefix) > 1 {
				rep.Samples = append(rep.Samples, map[string]interface{}{"requests": prefix[:min(len(prefix), 4)]})
			}
		}
	}
	reset()
	for _, c := range covered {
		if c {
			rep.EdgesCovered++
		}
	}
	return rep
}

func min(a, b int) int {
	if a < b {
		return a
	}
	return b
}

// ---------------------------------------------------------------------------
// response copy

type chunkReader struct {
	data   []byte
	chunk  int
	failAt int // < 0: never
	pos    int
}

func (r *chunkReader) Read(p []byte) (int, error) {
	if r.failAt >= 0 && r.pos >= r.failAt {
		return 0, errors.New("scripted read error")
	}
	if r.pos >= len(r.data) {
		return 0, io.EOF
	}
	n := r.chunk
	if n > len(p) {
		n = len(p)
	}
	if r.pos+n > len(r.data) {
		n = len(r.data) - r.pos
	}
	if r.failAt >= 0 && r.pos+n > r.failAt {
		n = r.failAt - r.pos
	}
	copy(p, r.data[r.pos:r.pos+n])
	r.pos += n
	return n, nil
}

// chunkLimit reads at most chunk bytes at a time from r
type chunkLimit struct {
	r     io.Reader
	chunk int
}

func (c *chunkLimit) Read(p []byte) (int, error) {
	if c.chunk > 0 && len(p) > c.chunk {
		p = p[:c.chunk]
	}
	return c.r.Read(p)
}

type stampWriter struct {
	mu     sync.Mutex
	hdr    http.Header
	buf    bytes.Buffer
	stamps []stamp
	t0     time.Time
	// the trailer names announced when the header went out (first write): as with net/http, only those are delivered
	announced map[string]bool
}

func (w *stampWriter) snapshot() {
	if w.announced != nil {
		return
	}
	w.announced = map[string]bool{}
	for _, v := range w.hdr.Values("Trailer") {
		for _, n := range strings.Split(v, ",") {
			w.announced[http.CanonicalHeaderKey(strings.TrimSpace(n))] = true
		}
	}
}

// trailer: the value of a trailer as the client gets it
func (w *stampWriter) trailer(name string) (string, bool) {
	w.mu.Lock()
	defer w.mu.Unlock()
	w.snapshot()
	if !w.announced[http.CanonicalHeaderKey(name)] {
		return "", false
	}
	return w.hdr.Get(name), true
}

type stamp struct {
	At    time.Duration
	Total int
}

func (w *stampWriter) Header() http.Header { return w.hdr }
func (w *stampWriter) WriteHeader(int)     {}
func (w *stampWriter) Flush()              {}
func (w *stampWriter) Write(p []byte) (int, error) {
	w.mu.Lock()
	defer w.mu.Unlock()
	if w.t0.IsZero() {
		w.t0 = time.Now()
	}
	w.snapshot()
	w.buf.Write(p)
	w.stamps = append(w.stamps, stamp{time.Since(w.t0), w.buf.Len()})
	return len(p), nil
}

type CopyCase struct {
	Mode   string `json:"mode"` // Buffered | Streaming
	Limit  int64  `json:"limit"`
	Size   int    `json:"size"`
	Chunk  int    `json:"chunk"`
	FailAt int    `json:"failAt"`
	Reset  bool   `json:"reset"`
	// StallAt >= 0: the function response comes over a connection; the runtime sends StallAt bytes and then
	// nothing more, without closing (the copy is blocked reading until the reset closes the connection)
	StallAt int    `json:"stallAt"`
	FnMode  string `json:"fnMode"` // response mode declared by the function ("" | "streaming")
	Class   string `json:"class"`  // expected End-Of-Response
	Fwd     int    `json:"forwarded"`
	Rate    int64  `json:"rate"`
	Burst   int64  `json:"burst"`
}

type CopyReport struct {
	Cases      int           `json:"cases"`
	Mismatches []interface{} `json:"mismatches"`
	Samples    []interface{} `json:"samples"`
	RateChecks int           `json:"rate_checks"`
}

// RunCopy executes the copy cases through SendDirectInvokeResponse.
func RunCopy(cases []CopyCase) *CopyReport {
	stack.Quiet()
	rep := &CopyReport{}
	for ci, c := range cases {
		reset()
		directinvoke.MaxDirectResponseSize = c.Limit
		directinvoke.InvokeResponseMode = interop.InvokeResponseMode(c.Mode)
		if c.Rate > 0 {
			directinvoke.ResponseBandwidthRate = c.Rate
			directinvoke.ResponseBandwidthBurstSize = c.Burst
		}
		data := stack.GenBody(c.Size, ci+1)
		w := &stampWriter{hdr: http.Header{}}
		// what ReceiveDirectInvoke announced when the request came in
		w.hdr.Set("Trailer", directinvoke.EndOfResponseTrailer)
		if c.Mode == "Streaming" {
			w.hdr.Add("Trailer", directinvoke.FunctionErrorTypeTrailer)
			w.hdr.Add("Trailer", directinvoke.FunctionErrorBodyTrailer)
		}
		addl := map[string]string{}
		if c.FnMode != "" {
			addl[directinvoke.FunctionResponseModeHeader] = c.FnMode
		}
		interrupted := make(chan *interop.Reset)
		sent := make(chan *interop.InvokeResponseMetrics, 1)
		var src io.Reader = &chunkReader{data: data, chunk: c.Chunk, failAt: c.FailAt}
		var creq *interop.CancellableRequest
		stalled := c.StallAt >= 0 && c.StallAt < len(data)
		var rtSide net.Conn
		if stalled {
			var srvSide net.Conn
			srvSide, rtSide = net.Pipe()
			go func(n int) { rtSide.Write(data[:n]) }(c.StallAt) // ... and then silence
			src = &chunkLimit{r: srvSide, chunk: c.Chunk}
			hr, _ := http.NewRequest("POST", "http://runtime/response", nil)
			creq = &interop.CancellableRequest{Request: hr.WithContext(context.WithValue(context.Background(), interop.HTTPConnKey, srvSide))}
		}
		done := make(chan error, 1)
		go func() {
			done <- directinvoke.SendDirectInvokeResponse(addl, src, http.Header{}, w, interrupted, sent, creq, true, "inv-1")
		}()
		acked := true
		if c.Reset {
			// a reset arrives while the copy is being throttled, or is blocked reading from a runtime that stalls
			time.Sleep(150 * time.Millisecond)
			acked = false
			select {
			case interrupted <- &interop.Reset{Reason: "timeout"}:
				select {
				case <-interrupted:
					acked = true
				case <-time.After(3 * time.Second):
				}
			case <-time.After(3 * time.Second):
			}
		}
		if !acked {
			rep.Mismatches = append(rep.Mismatches, map[string]interface{}{"case": c, "what": "the reset was not acknowledged within 3 s: the copy did not terminate"})
			if rtSide != nil {
				rtSide.Close()
			}
			continue
		}
		var err error
		select {
		case err = <-done:
		case <-time.After(60 * time.Second):
			rep.Mismatches = append(rep.Mismatches, map[string]interface{}{"case": c, "what": "the copy did not terminate"})
			continue
		}
		_ = err
		if rtSide != nil {
			rtSide.Close()
		}
		rep.Cases++
		w.mu.Lock()
		got := append([]byte{}, w.buf.Bytes()...)
		stamps := append([]stamp{}, w.stamps...)
		w.mu.Unlock()
		class, announced := w.trailer("End-Of-Response")
		what := ""
		switch {
		case !announced:
			what = fmt.Sprintf("the End-Of-Response trailer is set (%q) but was not announced when the header went out (Trailer: %v): it is not delivered",
				w.hdr.Get("End-Of-Response"), w.hdr.Values("Trailer"))
		case class != c.Class:
			what = fmt.Sprintf("End-Of-Response %q, specification says %q", class, c.Class)
		case stalled && c.Reset && len(got) != c.Fwd:
			what = fmt.Sprintf("%d bytes forwarded before the runtime stalled, specification says %d", len(got), c.Fwd)
		case stalled && c.Reset && w.hdr.Get("Lambda-Runtime-Function-Error-Type") != "Sandbox.Timeout":
			what = fmt.Sprintf("error type trailer %q after a timeout reset, expected Sandbox.Timeout", w.hdr.Get("Lambda-Runtime-Function-Error-Type"))
		case c.Class != "Truncated" && len(got) != c.Fwd:
			what = fmt.Sprintf("%d bytes forwarded, specification says %d", len(got), c.Fwd)
		case !bytes.Equal(got, data[:len(got)]):
			what = "forwarded bytes are not a prefix of the function response"
		}
		if what == "" && c.Mode == "Streaming" && c.Rate > 0 {
			// spec/TokenBucket.tla: the bucket holds at most `burst` tokens and receives rate*125ms tokens at every
			// multiple of 125 ms, so the volume forwarded by time t is at most burst + floor(t/125ms) * quantum
			// (40 ms of slack for the offset between the start of the throttler and the first write)
			rep.RateChecks++
			quantum := c.Rate * 125 / 1000
			for _, s := range stamps {
				ticks := int64((s.At + 40*time.Millisecond) / (125 * time.Millisecond))
				allowed := c.Burst + ticks*quantum
				if int64(s.Total) > allowed {
					what = fmt.Sprintf("%d bytes forwarded after %v, bound is %d (burst %d, rate %d/s)", s.Total, s.At, allowed, c.Burst, c.Rate)
					break
				}
			}
		}
		if what != "" && len(rep.Mismatches) < 8 {
			rep.Mismatches = append(rep.Mismatches, map[string]interface{}{"case": c, "what": what})
		}
		if len(rep.Samples) < 3 && ci%7 == 2 {
			rep.Samples = append(rep.Samples, map[string]interface{}{"case": c, "class": class, "forwarded": len(got)})
		}
	}
	reset()
	return rep
}
