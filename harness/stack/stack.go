// Package stack runs the whole emulator (rapidcore.SandboxBuilder + rapidcore.Server +
// rapid + rapi) in process against a fake process supervisor, a temporary
// extensions directory and scripted HTTP actors, and records every observable
// event (engines E3/E4).
package stack

import (
	"bytes"
	"context"
	"crypto/sha256"
	"encoding/hex"
	"encoding/json"
	"fmt"
	"io"
	"net"
	"net/http"
	"os"
	"path/filepath"
	"strings"
	"sync"
	"time"

	"go.amzn.com/lambda/core/statejson"
	"go.amzn.com/lambda/fatalerror"
	"go.amzn.com/lambda/interop"
	"go.amzn.com/lambda/rapidcore"
	"go.amzn.com/lambda/rapidcore/env"
	"verifharness/rec"
)

type ExtFile struct {
	Name string `json:"name"`
	Kind string `json:"kind"` // "file" | "dir"
}

type Options struct {
	Ext         []ExtFile         `json:"ext"`
	TimeoutMs   int64             `json:"timeoutMs"`
	InitCaching bool              `json:"initCaching"`
	Handler     string            `json:"handler"`
	CustomerEnv map[string]string `json:"customerEnv"`
	LaunchFail  []string          `json:"launchFail"`
	OnTerm      map[string]string `json:"onTerm"`
	ExitInExec  map[string]int    `json:"exitInExec"`
	ExecLatency int               `json:"execLatencyMs"`
	FullEnv     bool              `json:"fullEnv"`
	AccountID   string            `json:"accountId"`
	Port0       bool              `json:"port0"`
	ExitLagMs   int               `json:"exitLagMs"`
	ExitLagGens int               `json:"exitLagGens,omitempty"` // the lag applies to the first generations only
	// RecordRelease: the runtime of generation g identifies itself as "vrt-g<g>/1.0" (User-Agent) and the identity string
	// carried by the results rapid hands to the server is recorded (events InvokeMsg)
	RecordRelease bool `json:"recordRelease,omitempty"`
	FrontEnd      bool `json:"frontEnd,omitempty"` // invocations go through cmd/aws-lambda-rie's InvokeHandler (vhfe only)
	OpWaitMs      int  `json:"opWaitMs"`           // bound for a single driver step (default 20 s)
}

type Stack struct {
	Opt   Options
	Rec   *rec.Recorder
	Sup   *FakeSup
	Gates *Gates
	API   rapidcore.LambdaInvokeAPI // what the front end is given in cmd/aws-lambda-rie/main.go
	Srv   *rapidcore.Server
	State func() statejson.InternalStateDescription
	Addr  string
	Root  string
	HTTP  *http.Client

	ctx    context.Context // cancelled at the end of the scenario: aborts calls of parties without a process
	cancel context.CancelFunc

	mu        sync.Mutex
	bodies    map[string]string // sha -> label of the first event that carried this body
	nRestore  int
	feReqIDs  map[int][2]string // front-end request ordinal -> request id before / after sandbox.Invoke
	intAgent  map[string]string // internal agent name -> id
	intGen    map[string]int    // internal agent name -> generation in which the id was issued
	invMu     sync.Mutex
	ninv      int
	lastReq   []string // request ids seen by the runtime, in order
	nbody     int
	nfe       int
	feCallers map[int]int
}

type bootstrap struct{ cwd string }

func (b *bootstrap) Cmd() ([]string, error)                   { return []string{"/scripted/runtime"}, nil }
func (b *bootstrap) Env(e *env.Environment) map[string]string { return e.RuntimeExecEnv() }
func (b *bootstrap) Cwd() (string, error)                     { return b.cwd, nil }
func (b *bootstrap) ExtraFiles() []*os.File                   { return nil }
func (b *bootstrap) CachedFatalError(err error) (fatalerror.ErrorType, string, bool) {
	return fatalerror.ErrorType(""), "", false
}

func freePort() (int, error) {
	l, err := net.Listen("tcp", "127.0.0.1:0")
	if err != nil {
		return 0, err
	}
	defer l.Close()
	return l.Addr().(*net.TCPAddr).Port, nil
}

func New(opt Options) (*Stack, error) {
	if opt.TimeoutMs == 0 {
		opt.TimeoutMs = 2000
	}
	// the emulator's own process environment is where the function's credentials normally are (docker run -e ...):
	// the init request is built from them
	os.Setenv("AWS_ACCESS_KEY_ID", "AKIDEXAMPLE")
	os.Setenv("AWS_SECRET_ACCESS_KEY", "secret")
	os.Setenv("AWS_SESSION_TOKEN", "session")
	r := rec.New()
	root, err := os.MkdirTemp("", "verif-root-")
	if err != nil {
		return nil, err
	}
	extDir := filepath.Join(root, "opt", "extensions")
	if err := os.MkdirAll(extDir, 0o755); err != nil {
		return nil, err
	}
	for _, e := range opt.Ext {
		p := filepath.Join(extDir, e.Name)
		if e.Kind == "dir" {
			err = os.MkdirAll(p, 0o755)
		} else {
			err = os.WriteFile(p, []byte("#!/bin/sh\n"), 0o755)
		}
		if err != nil {
			return nil, err
		}
	}
	sup := NewFakeSup(r)
	gates := newGates(r)
	for _, n := range opt.LaunchFail {
		sup.LaunchFail[n] = true
	}
	for k, v := range opt.OnTerm {
		sup.OnTerm[k] = v
	}
	for k, v := range opt.ExitInExec {
		sup.ExitInExec[k] = v
	}
	sup.ExecLatency = time.Duration(opt.ExecLatency) * time.Millisecond
	sup.FullEnv = opt.FullEnv
	sup.ExitLag = time.Duration(opt.ExitLagMs) * time.Millisecond
	sup.ExitLagGens = opt.ExitLagGens

	// The port is chosen by asking the kernel for a free one and releasing it again; another process of a check
	// running in parallel can take it before the emulator listens (rapid.Start panics on a listen failure).
	// That is a collision of the driver's making, not behaviour of the emulator: choose again.
	var (
		b       *rapidcore.SandboxBuilder
		sbCtx   interop.SandboxContext
		stateFn interop.InternalStateGetter
		addr    string
	)
	for attempt := 0; ; attempt++ {
		port := 0
		if !opt.Port0 {
			port, err = freePort()
			if err != nil {
				return nil, err
			}
		}
		addr = fmt.Sprintf("127.0.0.1:%d", port)
		b = rapidcore.NewSandboxBuilder().
			SetSupervisor(sup).
			SetRuntimeFsRootPath(root).
			SetRuntimeAPIAddress(addr).
			SetExtensionsFlag(true).
			SetInitCachingFlag(opt.InitCaching).
			SetEventsAPI(&telRecorder{r: r}).
			SetTracer(&recTracer{r: r})
		if opt.Handler != "" {
			b.SetHandler(opt.Handler)
		}
		ok := func() (ok bool) {
			defer func() {
				if rec := recover(); rec != nil {
					if attempt >= 8 {
						panic(rec)
					}
					ok = false
				}
			}()
			sbCtx, stateFn = b.Create()
			return true
		}()
		if ok {
			break
		}
		time.Sleep(time.Duration(5*(attempt+1)) * time.Millisecond)
	}
	srv := b.DefaultInteropServer()
	if opt.RecordRelease {
		sbCtx = &recSandbox{SandboxContext: sbCtx, r: r}
	}
	srv.SetSandboxContext(sbCtx)
	// the server asks for the internal state when it builds a completion message (FastInvoke's goroutine, right before
	// the send into InvokeDoneChan): a driver-side pause point there, without a hook in /repo
	srv.SetInternalStateGetter(func() statejson.InternalStateDescription {
		gates.at("server.stateGetter")
		return stateFn()
	})
	s := &Stack{Opt: opt, Rec: r, Sup: sup, Gates: gates, Srv: srv, API: b.LambdaInvokeAPI(), State: stateFn, Addr: addr, Root: root,
		HTTP:     &http.Client{Transport: &http.Transport{DisableKeepAlives: true, MaxIdleConns: 0}},
		bodies:   map[string]string{},
		intAgent: map[string]string{}, intGen: map[string]int{}}
	s.ctx, s.cancel = context.WithCancel(context.Background())
	if opt.FrontEnd {
		feSetup(opt)
	}
	// wait until the Runtime API accepts connections (Listen runs in a goroutine)
	if !opt.Port0 {
		deadline := time.Now().Add(5 * time.Second)
		for {
			c, err := net.DialTimeout("tcp", addr, 200*time.Millisecond)
			if err == nil {
				c.Close()
				break
			}
			if time.Now().After(deadline) {
				return nil, fmt.Errorf("runtime API did not come up on %s", addr)
			}
			time.Sleep(time.Millisecond)
		}
	}
	return s, nil
}

func (s *Stack) Close() { os.RemoveAll(s.Root) }

// AbortClients ends every outstanding client call (end of scenario): no supervisor events.
func (s *Stack) AbortClients() {
	s.Gates.ReleaseAll()
	s.cancel()
	for _, p := range s.Sup.All() {
		p.cancel()
	}
}

// Init calls Server.Init like the front end's InitHandler does.
func (s *Stack) Init() {
	cenv := map[string]string{}
	for k, v := range s.Opt.CustomerEnv {
		cenv[k] = v
	}
	s.Rec.Emit("plat", "InitCall", "timeoutMs", s.Opt.TimeoutMs)
	_ = s.Srv.Init(&interop.Init{
		Handler:                      "handler.fn",
		AccountID:                    s.Opt.AccountID,
		AwsKey:                       "AKIDEXAMPLE",
		AwsSecret:                    "secret",
		AwsSession:                   "session",
		CredentialsExpiry:            time.Now().Add(24 * time.Hour),
		XRayDaemonAddress:            "0.0.0.0:0",
		FunctionName:                 "test_function",
		FunctionVersion:              "$LATEST",
		RuntimeInfo:                  interop.RuntimeInfo{ImageJSON: "{}"},
		CustomerEnvironmentVariables: cenv,
		SandboxType:                  interop.SandboxClassic,
		Bootstrap:                    &bootstrap{cwd: s.Root},
		EnvironmentVariables:         env.NewEnvironment(),
	}, s.Opt.TimeoutMs)
	s.Rec.Emit("plat", "InitRet")
}

// ---------------------------------------------------------------------------
// body projection: bytes -> label

func sha(b []byte) string {
	h := sha256.Sum256(b)
	return hex.EncodeToString(h[:8])
}

// noteBody remembers the first label under which a body was seen (payload of
// invocation k = "p<k>", body posted by the runtime = "r<seq>").
func (s *Stack) noteBody(b []byte, label string) string {
	if len(b) == 0 {
		return "empty"
	}
	s.mu.Lock()
	defer s.mu.Unlock()
	k := sha(b)
	if l, ok := s.bodies[k]; ok {
		return l
	}
	if label == "" {
		s.nbody++
		label = fmt.Sprintf("r%d", s.nbody)
	}
	s.bodies[k] = label
	return label
}

// classify maps received bytes to the label of the equal body sent earlier in
// this scenario, or to a description of what they are.
func (s *Stack) classify(b []byte) string {
	if len(b) == 0 {
		return "empty"
	}
	s.mu.Lock()
	lbl, ok := s.bodies[sha(b)]
	s.mu.Unlock()
	if ok {
		return lbl
	}
	if len(b) == 0 {
		return "empty"
	}
	var m map[string]interface{}
	if json.Unmarshal(b, &m) == nil {
		if et, ok := m["errorType"].(string); ok {
			if et == "Function.ResponseSizeTooLarge" {
				// "Response payload size (N bytes) exceeded maximum allowed payload size (M bytes)."
				var n, mx int
				msg, _ := m["errorMessage"].(string)
				if c, _ := fmt.Sscanf(msg, "Response payload size (%d bytes) exceeded maximum allowed payload size (%d bytes)", &n, &mx); c == 2 {
					return fmt.Sprintf("err:%s|%d|%d", et, n, mx)
				}
				return "err:" + et + "|nosizes"
			}
			return "err:" + et
		}
	}
	if strings.HasPrefix(string(b), "Task timed out") {
		return "timeout"
	}
	return "other:" + sha(b)
}

// GenBody returns deterministic pseudo-random bytes (all byte values, not valid UTF-8).
func GenBody(size int, seed int) []byte {
	b := make([]byte, size)
	x := uint32(seed)*2654435761 + 12345
	for i := range b {
		x = x*1664525 + 1013904223
		b[i] = byte(x >> 24)
	}
	return b
}

// ---------------------------------------------------------------------------
// invocation callers

type respWriter struct {
	hdr    http.Header
	status int
	body   bytes.Buffer
	mu     sync.Mutex
}

func (w *respWriter) Header() http.Header { return w.hdr }
func (w *respWriter) Write(b []byte) (int, error) {
	w.mu.Lock()
	defer w.mu.Unlock()
	return w.body.Write(b)
}
func (w *respWriter) WriteHeader(c int) { w.status = c }

type InvokeResult struct {
	Err    string
	Status int
	Body   []byte
	Class  string
	DurMs  int64
}

// Invoke calls Server.Invoke as the front end does and records call and return.
func (s *Stack) Invoke(caller int, payload []byte, label string, clientCtx, traceID string) InvokeResult {
	// ordinal and InvokeCall event are one atomic step: ordinals follow the order of the events
	s.invMu.Lock()
	s.ninv++
	k := s.ninv
	if label == "" {
		label = fmt.Sprintf("p%d", k)
	}
	if len(payload) > interop.MaxPayloadSize {
		// an oversized event must reach the runtime cut at the limit: the prefix has its own label
		s.noteBody(payload[:interop.MaxPayloadSize], fmt.Sprintf("c%d", k))
	}
	label = s.noteBody(payload, label)
	w := &respWriter{hdr: http.Header{}}
	inv := &interop.Invoke{
		// the id a caller supplies is not the request id (the emulator draws its own): the same one every time
		ID: "caller-supplied-id",
		// the alias qualifier identifies the invocation in everything rendered from it
		InvokedFunctionArn: fmt.Sprintf("arn:aws:lambda:us-east-1:012345678912:function:test_function:k%d", k),
		TraceID:            traceID,
		Payload:            bytes.NewReader(payload),
		ClientContext:      clientCtx,
	}
	t0 := time.Now()
	s.Rec.Emit(fmt.Sprintf("caller:%d", caller), "InvokeCall", "caller", caller, "k", k, "payload", label, "size", len(payload),
		"ctx", clientCtx, "trace", traceID, "nowMs", time.Now().UnixMilli())
	s.invMu.Unlock()
	err := s.Srv.Invoke(w, inv)
	res := InvokeResult{Status: w.status, DurMs: time.Since(t0).Milliseconds()}
	w.mu.Lock()
	res.Body = append([]byte{}, w.body.Bytes()...)
	w.mu.Unlock()
	if err != nil {
		res.Err = err.Error()
	}
	res.Class = s.classify(res.Body)
	s.Rec.Emit(fmt.Sprintf("caller:%d", caller), "InvokeRet", "caller", caller, "k", k, "payload", label, "err", res.Err,
		"status", res.Status, "body", res.Class, "size", len(res.Body), "durMs", res.DurMs,
		"ctype", w.hdr.Get("Content-Type"), "etype", w.hdr.Get("Error-Type"))
	return res
}

// ---------------------------------------------------------------------------
// HTTP actors

type CallResult struct {
	Status    int
	ErrType   string
	Body      []byte
	Header    http.Header
	NetErr    string
	RequestID string
}

func (s *Stack) do(p *Proc, method, path string, hdr map[string]string, body []byte) CallResult {
	var rd io.Reader
	if body != nil {
		rd = bytes.NewReader(body)
	}
	api := s.Addr
	if p != nil && p.Env["AWS_LAMBDA_RUNTIME_API"] != "" {
		api = p.Env["AWS_LAMBDA_RUNTIME_API"]
	}
	// "X-Verif-Slow-Body: <name>" (a directive to the driver, not sent): the headers and the first half of the body
	// go out at once, the rest only after the driver-side pause point drv.body:<name> has been passed; with
	// "X-Verif-Detached" the connection is not tied to the life of the sending process (a helper that outlives it)
	slow, isSlow := hdr["X-Verif-Slow-Body"]
	if isSlow && body != nil {
		rd = &slowBody{data: body, half: len(body) / 2, at: func() { s.Gates.at("drv.body:" + slow) }, abort: hdr["X-Verif-Abort-Body"] != ""}
	}
	req, err := http.NewRequest(method, "http://"+api+path, rd)
	if err != nil {
		return CallResult{NetErr: err.Error()}
	}
	if isSlow && body != nil && hdr["X-Verif-Chunked"] == "" {
		req.ContentLength = int64(len(body)) // otherwise the length is not declared: chunked transfer encoding
	}
	if p != nil && !(isSlow && hdr["X-Verif-Detached"] != "") {
		req = req.WithContext(p.ctx)
	} else {
		req = req.WithContext(s.ctx)
	}
	for k, v := range hdr {
		if strings.HasPrefix(k, "X-Verif-") {
			continue
		}
		req.Header.Set(k, v)
	}
	if s.Opt.RecordRelease && p != nil && p.Kind == "rt" {
		req.Header.Set("User-Agent", fmt.Sprintf("vrt-g%d/1.0", p.Gen))
	}
	resp, err := s.HTTP.Do(req)
	if err != nil {
		if isSlow && hdr["X-Verif-Abort-Body"] != "" {
			return CallResult{NetErr: "aborted"} // the sender itself broke the connection in the middle of the body
		}
		return CallResult{NetErr: "neterr"}
	}
	defer resp.Body.Close()
	b, err := io.ReadAll(resp.Body)
	res := CallResult{Status: resp.StatusCode, Body: b, Header: resp.Header}
	if err != nil {
		res.NetErr = "readerr"
	}
	if resp.StatusCode >= 400 {
		var m map[string]interface{}
		if json.Unmarshal(b, &m) == nil {
			if et, ok := m["errorType"].(string); ok {
				res.ErrType = et
			}
		}
	}
	return res
}

// slowBody delivers the first half of a request body, passes a pause point of the driver, then delivers the rest.
type slowBody struct {
	data   []byte
	half   int
	pos    int
	paused bool
	abort  bool // after the pause the upload fails instead of continuing
	at     func()
}

func (b *slowBody) Read(p []byte) (int, error) {
	if b.pos >= len(b.data) {
		return 0, io.EOF
	}
	end := len(b.data)
	if b.pos < b.half {
		end = b.half
	} else if !b.paused {
		b.paused = true
		b.at()
		if b.abort {
			return 0, io.ErrUnexpectedEOF
		}
	} else if b.abort {
		return 0, io.ErrUnexpectedEOF
	}
	n := copy(p, b.data[b.pos:end])
	b.pos += n
	return n, nil
}

func actorOf(p *Proc, fallback string) string {
	if p == nil {
		return fallback
	}
	if p.Kind == "rt" {
		return "rt"
	}
	return "ext:" + p.Base
}

func gen(p *Proc) int {
	if p == nil {
		return 0
	}
	return p.Gen
}

// RtNext polls /runtime/invocation/next.
func (s *Stack) RtNext(p *Proc, who string) CallResult {
	a := actorOf(p, who)
	cid := s.Rec.Emit(a, "NextCall", "who", a, "gen", gen(p))
	r := s.do(p, "GET", "/2018-06-01/runtime/invocation/next", nil, nil)
	r.RequestID = r.Header.Get("Lambda-Runtime-Aws-Request-Id")
	if r.Status == 200 && r.RequestID != "" {
		s.mu.Lock()
		s.lastReq = append(s.lastReq, r.RequestID)
		s.mu.Unlock()
	}
	s.Rec.Emit(a, "NextRet", "cid", cid, "who", a, "gen", gen(p), "status", r.Status, "errType", r.ErrType, "net", r.NetErr,
		"kind", map[bool]string{true: "INVOKE", false: ""}[r.Status == 200 && r.RequestID != ""], "reqid", r.RequestID,
		"payload", s.classifyIf(r.Status == 200 && r.RequestID != "", r.Body), "size", len(r.Body),
		"deadlineMs", r.Header.Get("Lambda-Runtime-Deadline-Ms"), "arn", r.Header.Get("Lambda-Runtime-Invoked-Function-Arn"),
		"ctx", r.Header.Get("Lambda-Runtime-Client-Context"), "trace", r.Header.Get("Lambda-Runtime-Trace-Id"),
		"nowMs", time.Now().UnixMilli())
	return r
}

// RtNextAbort polls for the next event over a raw connection, reads at most `limit` bytes of the
// answer and closes the connection (a runtime whose connection breaks while a large event is delivered).
func (s *Stack) RtNextAbort(p *Proc, limit int) {
	a := actorOf(p, "rt")
	cid := s.Rec.Emit(a, "NextCall", "who", a, "gen", gen(p), "abortAfter", limit)
	api := s.Addr
	if p != nil && p.Env["AWS_LAMBDA_RUNTIME_API"] != "" {
		api = p.Env["AWS_LAMBDA_RUNTIME_API"]
	}
	got := 0
	c, err := net.DialTimeout("tcp", api, 2*time.Second)
	if err == nil {
		fmt.Fprintf(c, "GET /2018-06-01/runtime/invocation/next HTTP/1.1\r\nHost: %s\r\n\r\n", api)
		buf := make([]byte, 4096)
		_ = c.SetReadDeadline(time.Now().Add(10 * time.Second))
		for got < limit {
			n, err := c.Read(buf)
			got += n
			if err != nil {
				break
			}
		}
		if tc, ok := c.(*net.TCPConn); ok {
			_ = tc.SetLinger(0) // reset: the server's pending write fails at once
		}
		c.Close()
	}
	s.Rec.Emit(a, "NextRet", "cid", cid, "who", a, "gen", gen(p), "status", 0, "net", "aborted", "size", got)
}

func (s *Stack) classifyIf(ok bool, b []byte) string {
	if !ok {
		return ""
	}
	return s.classify(b)
}

// ResolveID turns an id class into a concrete request id: "current" = the id the
// runtime received last, "stale:k" = the id received k polls before that, "unknown".
func (s *Stack) ResolveID(class string) string {
	s.mu.Lock()
	defer s.mu.Unlock()
	switch {
	case class == "" || class == "current":
		if len(s.lastReq) == 0 {
			return "00000000-0000-0000-0000-000000000000"
		}
		return s.lastReq[len(s.lastReq)-1]
	case strings.HasPrefix(class, "stale:"):
		var k int
		fmt.Sscanf(class, "stale:%d", &k)
		// distinct earlier ids
		ids := []string{}
		for _, id := range s.lastReq {
			if len(ids) == 0 || ids[len(ids)-1] != id {
				ids = append(ids, id)
			}
		}
		if len(ids)-1-k >= 0 {
			return ids[len(ids)-1-k]
		}
		return "11111111-1111-1111-1111-111111111111"
	case class == "upper":
		// the current id in another letter case: a different id as far as the emulator is concerned
		if len(s.lastReq) == 0 {
			return "AAAAAAAA-0000-0000-0000-000000000000"
		}
		return strings.ToUpper(s.lastReq[len(s.lastReq)-1])
	case class == "unknown":
		return "99999999-9999-9999-9999-999999999999"
	case class == "empty":
		return ""
	}
	return class
}

func (s *Stack) RtResponse(p *Proc, who, idClass string, body []byte, hdr map[string]string) CallResult {
	a := actorOf(p, who)
	id := s.ResolveID(idClass)
	lbl := s.noteBody(body, "")
	cid := s.Rec.Emit(a, "RespCall", "who", a, "gen", gen(p), "id", idClass, "reqid", id, "size", len(body), "body", lbl,
		"slow", hdr["X-Verif-Slow-Body"], "abort", hdr["X-Verif-Abort-Body"] != "", "detached", hdr["X-Verif-Detached"] != "", "mode", modeClass(hdr["Lambda-Runtime-Function-Response-Mode"]))
	r := s.do(p, "POST", "/2018-06-01/runtime/invocation/"+id+"/response", hdr, body)
	s.Rec.Emit(a, "RespRet", "cid", cid, "who", a, "gen", gen(p), "id", idClass, "reqid", id, "status", r.Status, "errType", r.ErrType, "net", r.NetErr)
	return r
}

// modeClass: the response-mode header of a /response request - absent, "streaming", or anything else (refused)
func modeClass(v string) string {
	switch v {
	case "", "streaming":
		return v
	}
	return "bad"
}

func (s *Stack) RtError(p *Proc, who, idClass, errType string, body []byte, hdr map[string]string) CallResult {
	a := actorOf(p, who)
	id := s.ResolveID(idClass)
	h := map[string]string{}
	for k, v := range hdr {
		h[k] = v
	}
	if errType != "" {
		h["Lambda-Runtime-Function-Error-Type"] = errType
	}
	lbl := s.noteBody(body, "")
	cid := s.Rec.Emit(a, "ErrCall", "who", a, "gen", gen(p), "id", idClass, "reqid", id, "size", len(body), "errType", errType, "body", lbl,
		"slow", hdr["X-Verif-Slow-Body"], "abort", hdr["X-Verif-Abort-Body"] != "", "detached", hdr["X-Verif-Detached"] != "")
	r := s.do(p, "POST", "/2018-06-01/runtime/invocation/"+id+"/error", h, body)
	s.Rec.Emit(a, "ErrRet", "cid", cid, "who", a, "gen", gen(p), "id", idClass, "reqid", id, "status", r.Status, "errType", r.ErrType, "net", r.NetErr)
	return r
}

func (s *Stack) RtInitError(p *Proc, who, errType string, body []byte) CallResult {
	return s.RtInitErrorH(p, who, errType, body, nil)
}

// RtInitErrorH: RtInitError with further request headers.
func (s *Stack) RtInitErrorH(p *Proc, who, errType string, body []byte, hdr map[string]string) CallResult {
	a := actorOf(p, who)
	h := map[string]string{}
	for k, v := range hdr {
		h[k] = v
	}
	if errType != "" {
		h["Lambda-Runtime-Function-Error-Type"] = errType
	}
	lbl := s.noteBody(body, "")
	cid := s.Rec.Emit(a, "InitErrCall", "who", a, "gen", gen(p), "size", len(body), "errType", errType, "body", lbl)
	r := s.do(p, "POST", "/2018-06-01/runtime/init/error", h, body)
	s.Rec.Emit(a, "InitErrRet", "cid", cid, "who", a, "gen", gen(p), "status", r.Status, "errType", r.ErrType, "net", r.NetErr)
	return r
}

func (s *Stack) RtRestoreNext(p *Proc, who string) CallResult {
	a := actorOf(p, who)
	cid := s.Rec.Emit(a, "RestoreNextCall", "who", a, "gen", gen(p))
	r := s.do(p, "GET", "/2018-06-01/runtime/restore/next", nil, nil)
	s.Rec.Emit(a, "RestoreNextRet", "cid", cid, "who", a, "gen", gen(p), "status", r.Status, "errType", r.ErrType, "net", r.NetErr)
	return r
}

func (s *Stack) RtRestoreError(p *Proc, who, errType string) CallResult {
	a := actorOf(p, who)
	h := map[string]string{}
	if errType != "" {
		h["Lambda-Runtime-Function-Error-Type"] = errType
	}
	cid := s.Rec.Emit(a, "RestoreErrCall", "who", a, "gen", gen(p), "errType", errType)
	r := s.do(p, "POST", "/2018-06-01/runtime/restore/error", h, []byte("{}"))
	s.Rec.Emit(a, "RestoreErrRet", "cid", cid, "who", a, "gen", gen(p), "status", r.Status, "errType", r.ErrType, "net", r.NetErr)
	return r
}

// restoreExpiry: the credentials of every restore expire earlier than the ones held so far (long-lived ones at
// init, shorter ones with each restore) - they replace them all the same
func (s *Stack) restoreExpiry() time.Time {
	s.mu.Lock()
	defer s.mu.Unlock()
	s.nRestore++
	return time.Now().Add(12*time.Hour - time.Duration(s.nRestore)*time.Hour)
}

// Creds asks the credentials endpoint (snapshot mode) with the per-instance token of the runtime's
// environment ("ok"), a wrong token or none.
func (s *Stack) Creds(p *Proc, idClass string) CallResult {
	a := actorOf(p, "rt")
	if idClass == "" {
		idClass = "ok"
	}
	h := map[string]string{}
	switch idClass {
	case "ok":
		if p != nil {
			h["Authorization"] = p.Env["AWS_CONTAINER_AUTHORIZATION_TOKEN"]
		}
	case "wrong":
		h["Authorization"] = "not-the-token"
	}
	cid := s.Rec.Emit(a, "CredsCall", "who", a, "gen", gen(p), "idc", idClass)
	r := s.do(p, "GET", "/2021-04-23/credentials", h, nil)
	var m map[string]interface{}
	_ = json.Unmarshal(r.Body, &m)
	key, _ := m["AccessKeyId"].(string)
	lbl := key
	if key == "AKIDEXAMPLE" {
		lbl = "init"
	} else if strings.HasPrefix(key, "RK") {
		lbl = strings.TrimPrefix(key, "RK")
	}
	s.Rec.Emit(a, "CredsRet", "cid", cid, "who", a, "gen", gen(p), "status", r.Status, "net", r.NetErr, "creds", lbl)
	return r
}

// Route issues an arbitrary request (unknown routes, wrong methods).
func (s *Stack) Route(p *Proc, who, method, path, cls string, hdr map[string]string, body []byte) CallResult {
	a := actorOf(p, who)
	cid := s.Rec.Emit(a, "RouteCall", "cls", cls, "who", a, "gen", gen(p), "method", method, "path", path)
	r := s.do(p, method, path, hdr, body)
	if r.ErrType == "" {
		// the stub routes answer 202 with an error document
		var m map[string]interface{}
		if json.Unmarshal(r.Body, &m) == nil {
			if et, ok := m["errorType"].(string); ok {
				r.ErrType = et
			}
		}
	}
	s.Rec.Emit(a, "RouteRet", "cid", cid, "who", a, "gen", gen(p), "method", method, "path", path, "status", r.Status, "errType", r.ErrType,
		"net", r.NetErr, "size", len(r.Body))
	return r
}

// ExtRegister registers an extension; name is the Lambda-Extension-Name header.
func (s *Stack) ExtRegister(p *Proc, who, name string, events []string, features string, rawBody string) CallResult {
	h := map[string]string{}
	if name != "" {
		h["Lambda-Extension-Name"] = name
	}
	if features != "" {
		h["Lambda-Extension-Accept-Feature"] = features
	}
	var body []byte
	if rawBody != "" {
		body = []byte(rawBody)
	} else {
		if events == nil {
			events = []string{}
		}
		body, _ = json.Marshal(map[string]interface{}{"events": events})
	}
	cid := s.Rec.Emit(who, "RegisterCall", "rawBody", rawBody != "", "who", who, "gen", gen(p), "name", name, "events", events, "features", features)
	r := s.do(p, "POST", "/2020-01-01/extension/register", h, body)
	id := r.Header.Get("Lambda-Extension-Identifier")
	if r.Status == 200 && id != "" {
		g := cid // identifiers are tied to the registration call that issued them
		if p != nil && p.Kind == "ext" && p.Base == name {
			p.mu.Lock()
			p.AgentID = id
			p.idGen = g
			p.mu.Unlock()
		} else {
			s.mu.Lock()
			s.intAgent[name] = id
			s.intGen[name] = g
			s.mu.Unlock()
		}
	}
	var md map[string]interface{}
	_ = json.Unmarshal(r.Body, &md)
	s.Rec.Emit(who, "RegisterRet", "cid", cid, "who", who, "gen", gen(p), "name", name, "status", r.Status, "errType", r.ErrType, "net", r.NetErr,
		"hasId", id != "", "fn", md["functionName"], "ver", md["functionVersion"], "handler", md["handler"], "account", md["accountId"])
	return r
}

// AgentID returns the identifier class resolved to a header value.
func (s *Stack) AgentID(p *Proc, who, class string) string {
	switch class {
	case "missing":
		return ""
	case "invalid":
		return "not-a-uuid"
	case "unknown":
		return "12345678-1234-1234-1234-123456789abc"
	case "old":
		if op := s.oldProc(p); op != nil {
			op.mu.Lock()
			defer op.mu.Unlock()
			return op.AgentID
		}
		return "12345678-1234-1234-1234-123456789abc"
	}
	if p != nil && p.Kind == "ext" {
		p.mu.Lock()
		defer p.mu.Unlock()
		if p.AgentID != "" {
			return p.AgentID
		}
	}
	s.mu.Lock()
	defer s.mu.Unlock()
	if strings.HasPrefix(who, "int:") {
		return s.intAgent[strings.TrimPrefix(who, "int:")]
	}
	if strings.HasPrefix(who, "ext:") {
		return s.intAgent[strings.TrimPrefix(who, "ext:")]
	}
	return ""
}

func (s *Stack) ExtNext(p *Proc, who, idClass string) CallResult {
	h := map[string]string{}
	if id := s.AgentID(p, who, idClass); id != "" {
		h["Lambda-Extension-Identifier"] = id
	} else if idClass == "" {
		idClass = "missing" // this party never obtained an identifier
	}
	idg := s.idGenClass(p, who, idClass)
	if idClass == "old" {
		idClass = "" // a well-formed identifier; whose it is says idgen
		if idg == 0 {
			idClass = "unknown"
		}
	}
	cid := s.Rec.Emit(who, "NextCall", "who", who, "gen", gen(p), "idc", idClass, "idgen", idg)
	r := s.do(p, "GET", "/2020-01-01/extension/event/next", h, nil)
	var ev map[string]interface{}
	_ = json.Unmarshal(r.Body, &ev)
	kind, _ := ev["eventType"].(string)
	reqid, _ := ev["requestId"].(string)
	arn, _ := ev["invokedFunctionArn"].(string)
	reason, _ := ev["shutdownReason"].(string)
	var dl int64
	if f, ok := ev["deadlineMs"].(float64); ok {
		dl = int64(f)
	}
	trace := ""
	if tr, ok := ev["tracing"].(map[string]interface{}); ok {
		trace, _ = tr["value"].(string)
	}
	if r.Status != 200 {
		kind = ""
	}
	s.Rec.Emit(who, "NextRet", "cid", cid, "who", who, "gen", gen(p), "idc", idClass, "status", r.Status, "errType", r.ErrType, "net", r.NetErr,
		"kind", kind, "reqid", reqid, "arn", arn, "deadlineMs", fmt.Sprintf("%d", dl), "reason", reason, "trace", trace,
		"evid", r.Header.Get("Lambda-Extension-Event-Identifier") != "", "nowMs", time.Now().UnixMilli(), "size", len(r.Body))
	return r
}

func (s *Stack) ExtError(p *Proc, who, which, idClass, errType string) CallResult {
	h := map[string]string{}
	if id := s.AgentID(p, who, idClass); id != "" {
		h["Lambda-Extension-Identifier"] = id
	} else if idClass == "" {
		idClass = "missing"
	}
	if errType != "" {
		h["Lambda-Extension-Function-Error-Type"] = errType
	}
	evn := map[string]string{"init": "ExtInitErr", "exit": "ExtExitErr"}[which]
	idg := s.idGenClass(p, who, idClass)
	if idClass == "old" {
		idClass = "" // a well-formed identifier; whose it is says idgen
	}
	cid := s.Rec.Emit(who, evn+"Call", "who", who, "gen", gen(p), "idc", idClass, "errType", errType, "idgen", idg)
	r := s.do(p, "POST", "/2020-01-01/extension/"+which+"/error", h, []byte("{}"))
	s.Rec.Emit(who, evn+"Ret", "cid", cid, "who", who, "gen", gen(p), "idc", idClass, "status", r.Status, "errType", r.ErrType, "net", r.NetErr)
	return r
}

// ---------------------------------------------------------------------------
// internal state projection

func (s *Stack) RuntimeState() string {
	st := s.State()
	if st.Runtime == nil {
		return ""
	}
	return st.Runtime.State.Name
}

func (s *Stack) AgentState(name string) string {
	st := s.State()
	for _, e := range st.Extensions {
		if e.Name == name {
			return e.State.Name
		}
	}
	return ""
}

// curGen is the generation of the most recently exec'd process (0 before any exec).
func (s *Stack) curGen() int {
	g := 0
	for _, p := range s.Sup.All() {
		if p.Gen > g {
			g = p.Gen
		}
	}
	return g
}

// idGen returns the generation in which the identifier used by `who` was issued.
// oldProc: the latest process of the same extension in an earlier generation that obtained an identifier
func (s *Stack) oldProc(p *Proc) *Proc {
	if p == nil {
		return nil
	}
	var best *Proc
	for _, q := range s.Sup.All() {
		if q.Kind == p.Kind && q.Base == p.Base && q.Gen < p.Gen {
			q.mu.Lock()
			has := q.AgentID != ""
			q.mu.Unlock()
			if has && (best == nil || q.Gen > best.Gen) {
				best = q
			}
		}
	}
	return best
}

// idGenClass: the registration call that issued the identifier a call of this class carries
func (s *Stack) idGenClass(p *Proc, who, class string) int {
	if class == "old" {
		if op := s.oldProc(p); op != nil {
			op.mu.Lock()
			defer op.mu.Unlock()
			return op.idGen
		}
		return 0
	}
	return s.idGen(p, who)
}

func (s *Stack) idGen(p *Proc, who string) int {
	if p != nil && p.Kind == "ext" {
		p.mu.Lock()
		defer p.mu.Unlock()
		if p.AgentID != "" {
			return p.idGen
		}
	}
	s.mu.Lock()
	defer s.mu.Unlock()
	return s.intGen[strings.TrimPrefix(strings.TrimPrefix(who, "int:"), "ext:")]
}

// recSandbox records what rapid hands to the server as the result of an invocation (the server drops most of it): the
// identity string of the runtime the result carries.
type recSandbox struct {
	interop.SandboxContext
	r *rec.Recorder
}

func (x *recSandbox) Init(i *interop.Init, timeoutMs int64) interop.InitContext {
	return &recInit{InitContext: x.SandboxContext.Init(i, timeoutMs), r: x.r}
}

type recInit struct {
	interop.InitContext
	r *rec.Recorder
}

func (x *recInit) Reserve() interop.InvokeContext {
	return &recInvoke{InvokeContext: x.InitContext.Reserve(), r: x.r}
}

type recInvoke struct {
	interop.InvokeContext
	r  *rec.Recorder
	id string
}

func (x *recInvoke) SendRequest(i *interop.Invoke, rs interop.InvokeResponseSender) {
	x.id = i.ID
	x.InvokeContext.SendRequest(i, rs)
}

func (x *recInvoke) Wait() (interop.InvokeSuccess, *interop.InvokeFailure) {
	ok, fail := x.InvokeContext.Wait()
	switch {
	case fail == nil:
		x.r.Emit("srv", "InvokeMsg", "reqid", x.id, "kind", "ok", "release", ok.RuntimeRelease)
	case fail.ResetReceived:
		x.r.Emit("srv", "InvokeMsg", "reqid", x.id, "kind", "rst", "release", fail.RuntimeRelease)
	default:
		x.r.Emit("srv", "InvokeMsg", "reqid", x.id, "kind", "fail", "release", fail.RuntimeRelease)
	}
	return ok, fail
}
