package stack

import (
	"io"

	log "github.com/sirupsen/logrus"
)

// Quiet silences the emulator's logging (panics through log.Panic still panic).
func Quiet() {
	log.SetOutput(io.Discard)
	log.SetLevel(log.PanicLevel)
}
