package stack

import (
	"bufio"
	"bytes"
	"crypto/sha256"
	"encoding/base64"
	"encoding/hex"
	"fmt"
	"io"
	"math"
	"net/http"
	"net/http/httptest"
	"os"
	"regexp"
	"strconv"
	"strings"
	"sync"
	"time"

	"go.amzn.com/lambda/interop"
	"go.amzn.com/lambda/rapidcore"
)

// Front-end mode: invocations enter through the real InvokeHandler of
// cmd/aws-lambda-rie (package main, compiled into cmd/vhfe through a build
// overlay), which calls sandbox.Init on the first request and sandbox.Invoke.
// The sandbox handed to it is a recording wrapper around the real
// rapidcore.LambdaInvokeAPI, so the events of the core (InitCall, InvokeCall,
// InvokeRet) are the same as in direct mode and the events of the front end
// (FECall, FERet) come on top.

// FESandbox is the method set of main.Sandbox.
type FESandbox interface {
	Init(i *interop.Init, invokeTimeoutMs int64)
	Invoke(responseWriter http.ResponseWriter, invoke *interop.Invoke) error
}

// Set by cmd/vhfe.
var (
	FrontEndHandler func(w http.ResponseWriter, r *http.Request, sb FESandbox, bs interop.Bootstrap)
	FrontEndReset   func() // initDone = false: a new emulator process
)

// LineLog collects what the front end prints to standard output (START / END / REPORT lines).
type LineLog struct {
	mu    sync.Mutex
	cond  *sync.Cond
	lines []string
	seen  map[int]bool
	next  int
	w     *os.File
}

// FELog is set by CaptureStdout (cmd/vhfe).
var FELog *LineLog

// CaptureStdout redirects the process's standard output into a pipe that a reader goroutine drains line by line.
func CaptureStdout() {
	r, w, err := os.Pipe()
	if err != nil {
		return
	}
	os.Stdout = w
	l := &LineLog{w: w, seen: map[int]bool{}}
	l.cond = sync.NewCond(&l.mu)
	go func() {
		sc := bufio.NewScanner(r)
		sc.Buffer(make([]byte, 1<<20), 1<<20)
		for sc.Scan() {
			t := sc.Text()
			l.mu.Lock()
			if strings.HasPrefix(t, "VSYNC ") {
				n, _ := strconv.Atoi(t[6:])
				l.seen[n] = true
				l.cond.Broadcast()
			} else {
				l.lines = append(l.lines, t)
			}
			l.mu.Unlock()
		}
	}()
	FELog = l
}

// Sync returns once everything printed before the call has been read.
func (l *LineLog) Sync() {
	l.mu.Lock()
	l.next++
	n := l.next
	l.mu.Unlock()
	fmt.Fprintf(l.w, "VSYNC %d\n", n)
	l.mu.Lock()
	for !l.seen[n] {
		l.cond.Wait()
	}
	delete(l.seen, n)
	l.mu.Unlock()
}

var (
	reDur    = regexp.MustCompile(`\tDuration: ([0-9.]+) ms\t`)
	reBilled = regexp.MustCompile(`\tBilled Duration: ([0-9]+) ms\t`)
)

// For returns the classes of the lines printed for the request id, in order: START, END, REPORT (REPORT+init
// with an init duration); a line whose content is not what the handler's format and arithmetic give is
// "<class>-bad" (version, duration above the function timeout, billed duration not the duration rounded up).
//
// The START line carries the id the front end generated for the request; rapidcore.Server.Invoke reserves under an
// id of its own and overwrites Invoke.ID with it (FastInvoke), so END and REPORT carry that one - the id the
// runtime sees.  ids = {id before sandbox.Invoke, id after it returned}.
func (l *LineLog) For(ids [2]string, timeoutMs float64) []string {
	l.mu.Lock()
	defer l.mu.Unlock()
	out := []string{}
	for _, t := range l.lines {
		if !strings.Contains(t, "RequestId: "+ids[0]) && !strings.Contains(t, "RequestId: "+ids[1]) {
			continue
		}
		reqid := ids[1]
		switch {
		case strings.HasPrefix(t, "START RequestId: "):
			reqid = ids[0]
			if t == "START RequestId: "+reqid+" Version: $LATEST" {
				out = append(out, "START")
			} else {
				out = append(out, "START-bad")
			}
		case strings.HasPrefix(t, "END RequestId: "):
			if t == "END RequestId: "+reqid {
				out = append(out, "END")
			} else {
				out = append(out, "END-bad")
			}
		case strings.HasPrefix(t, "REPORT RequestId: "+reqid+"\t"):
			cls := "REPORT"
			if strings.Contains(t, "\tInit Duration: ") {
				cls = "REPORT+init"
			}
			d := reDur.FindStringSubmatch(t)
			b := reBilled.FindStringSubmatch(t)
			ok := d != nil && b != nil
			if ok {
				dv, _ := strconv.ParseFloat(d[1], 64)
				bv, _ := strconv.ParseFloat(b[1], 64)
				ok = dv <= timeoutMs+0.01 && math.Abs(bv-math.Ceil(dv)) <= 1
			}
			if !ok {
				cls += "-bad"
			}
			out = append(out, cls)
		default:
			out = append(out, "other")
		}
	}
	return out
}

type feSandbox struct {
	s   *Stack
	api rapidcore.LambdaInvokeAPI
}

func (f *feSandbox) Init(i *interop.Init, timeoutMs int64) {
	f.s.Rec.Emit("plat", "InitCall", "timeoutMs", timeoutMs, "fe", true, "handler", i.Handler, "fn", i.FunctionName)
	f.api.Init(i, timeoutMs)
	f.s.Rec.Emit("plat", "InitRet")
}

type teeWriter struct {
	inner  http.ResponseWriter
	mu     sync.Mutex
	body   bytes.Buffer
	status int
}

func (t *teeWriter) Header() http.Header { return t.inner.Header() }
func (t *teeWriter) Write(p []byte) (int, error) {
	t.mu.Lock()
	t.body.Write(p)
	t.mu.Unlock()
	return t.inner.Write(p)
}
func (t *teeWriter) WriteHeader(c int) {
	t.mu.Lock()
	t.status = c
	t.mu.Unlock()
	t.inner.WriteHeader(c)
}

func sha8(b []byte) string {
	h := sha256.Sum256(b)
	return hex.EncodeToString(h[:8])
}

func (f *feSandbox) Invoke(w http.ResponseWriter, inv *interop.Invoke) error {
	s := f.s
	payload, _ := io.ReadAll(inv.Payload)
	inv.Payload = bytes.NewReader(payload)
	j := 0
	if len(inv.LambdaSegmentID) > 1 && inv.LambdaSegmentID[0] == 'j' {
		j, _ = strconv.Atoi(inv.LambdaSegmentID[1:])
	}
	s.invMu.Lock()
	s.ninv++
	k := s.ninv
	if len(payload) > interop.MaxPayloadSize {
		s.noteBody(payload[:interop.MaxPayloadSize], fmt.Sprintf("c%d", k))
	}
	label := s.noteBody(payload, fmt.Sprintf("p%d", k))
	caller := s.feCaller(j)
	idBefore := inv.ID
	t0 := time.Now()
	s.Rec.Emit(fmt.Sprintf("caller:%d", caller), "InvokeCall", "caller", caller, "k", k, "payload", label, "size", len(payload),
		"ctx", inv.ClientContext, "trace", inv.TraceID, "nowMs", time.Now().UnixMilli(), "reqid", inv.ID, "fe", j,
		"arn", inv.InvokedFunctionArn, "sha", sha8(payload))
	s.invMu.Unlock()
	tw := &teeWriter{inner: w}
	err := f.api.Invoke(tw, inv)
	s.mu.Lock()
	if s.feReqIDs == nil {
		s.feReqIDs = map[int][2]string{}
	}
	s.feReqIDs[j] = [2]string{idBefore, inv.ID}
	s.mu.Unlock()
	tw.mu.Lock()
	body := append([]byte{}, tw.body.Bytes()...)
	status := tw.status
	tw.mu.Unlock()
	e := ""
	if err != nil {
		e = err.Error()
	}
	s.Rec.Emit(fmt.Sprintf("caller:%d", caller), "InvokeRet", "caller", caller, "k", k, "payload", label, "err", e,
		"status", status, "body", s.classify(body), "size", len(body), "durMs", time.Since(t0).Milliseconds(), "ctype", "", "fe", j,
		"sha", sha8(body), "reqid2", inv.ID)
	return err
}

func (s *Stack) feCaller(j int) int {
	s.mu.Lock()
	defer s.mu.Unlock()
	if c, ok := s.feCallers[j]; ok {
		return c
	}
	return 1
}

// FEInvoke posts one request to the real InvokeHandler.
func (s *Stack) FEInvoke(caller int, payload []byte, clientCtx, traceID string, badCtx bool) InvokeResult {
	if FrontEndHandler == nil {
		s.Rec.Emit("drv", "NoFrontEnd")
		return InvokeResult{Err: "front end not linked in"}
	}
	s.mu.Lock()
	s.nfe++
	j := s.nfe
	if s.feCallers == nil {
		s.feCallers = map[int]int{}
	}
	s.feCallers[j] = caller
	s.mu.Unlock()
	// every second request carries its event without an announced length (Transfer-Encoding: chunked, a streamed
	// upload): net/http hands the handler ContentLength -1 and a body that yields the bytes
	var rd io.Reader = bytes.NewReader(payload)
	if j%2 == 0 {
		rd = struct{ io.Reader }{rd}
	}
	req := httptest.NewRequest("POST", "/2015-03-31/functions/function/invocations", rd)
	if badCtx {
		req.Header.Set("X-Amz-Client-Context", "%%%not-base64%%%")
	} else if clientCtx != "" {
		req.Header.Set("X-Amz-Client-Context", base64.StdEncoding.EncodeToString([]byte(clientCtx)))
	}
	if traceID != "" {
		req.Header.Set("X-Amzn-Trace-Id", traceID)
	}
	req.Header.Set("X-Amzn-Segment-Id", fmt.Sprintf("j%d", j))
	w := httptest.NewRecorder()
	sw := &stallWriter{ResponseRecorder: w, at: func() { s.Gates.at(fmt.Sprintf("drv.feWrite:%d", caller)) }}
	t0 := time.Now()
	s.Rec.Emit(fmt.Sprintf("caller:%d", caller), "FECall", "caller", caller, "j", j, "size", len(payload), "sha", sha8(payload),
		"badctx", badCtx, "ctx", clientCtx, "trace", traceID)
	FrontEndHandler(sw, req, &feSandbox{s: s, api: s.API}, &bootstrap{cwd: s.Root})
	body := w.Body.Bytes()
	res := InvokeResult{Status: w.Code, Body: body, DurMs: time.Since(t0).Milliseconds()}
	res.Class = s.classify(body)
	lines := []string{}
	if FELog != nil {
		FELog.Sync()
		s.mu.Lock()
		id, reached := s.feReqIDs[j]
		s.mu.Unlock()
		if reached {
			secs := s.Opt.TimeoutMs / 1000
			if secs < 1 {
				secs = 1
			}
			lines = FELog.For(id, float64(secs)*1000)
		}
	}
	s.Rec.Emit(fmt.Sprintf("caller:%d", caller), "FERet", "caller", caller, "j", j, "status", w.Code, "body", res.Class,
		"size", len(body), "sha", sha8(body), "durMs", res.DurMs, "lines", lines, "logged", FELog != nil)
	return res
}

// stallWriter is the caller's connection: a write of body bytes passes the driver-side pause point
// "drv.feWrite:<caller>" before the bytes are taken (a connection whose peer does not read stalls the write; the
// bytes handed to it must still be the ones delivered once it continues).
type stallWriter struct {
	*httptest.ResponseRecorder
	at func()
}

func (w *stallWriter) Write(p []byte) (int, error) {
	if len(p) > 0 {
		w.at()
	}
	return w.ResponseRecorder.Write(p)
}

// feSetup prepares the process-wide state the front end reads.
func feSetup(opt Options) {
	secs := opt.TimeoutMs / 1000
	if secs < 1 {
		secs = 1
	}
	os.Setenv("AWS_LAMBDA_FUNCTION_TIMEOUT", strconv.Itoa(int(secs)))
	os.Setenv("AWS_LAMBDA_FUNCTION_HANDLER", "handler.fn")
	if FrontEndReset != nil {
		FrontEndReset()
	}
}
