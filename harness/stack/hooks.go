package stack

import (
	"sync"
	"time"

	"go.amzn.com/lambda/core"
	"go.amzn.com/lambda/rapid"
	"go.amzn.com/lambda/rapidcore"
	"verifharness/rec"
)

// Gates drives the named pause points compiled into the emulator under the
// verif build tag (rapid.VerifHook / rapidcore.VerifHook).  A point that is not
// armed is passed silently; an armed point holds the next goroutine reaching it
// until the script releases it.  HookEnter is recorded while the goroutine is
// at the point (everything it did before has a smaller sequence number),
// HookLeave before it continues (everything it does afterwards has a larger one).
type Gates struct {
	mu    sync.Mutex
	rec   *rec.Recorder
	armed map[string]int
	skip  map[string]int
	held  map[string][]chan struct{}
}

func newGates(r *rec.Recorder) *Gates {
	g := &Gates{rec: r, armed: map[string]int{}, skip: map[string]int{}, held: map[string][]chan struct{}{}}
	rapid.VerifHook = g.at
	core.VerifHook = g.at
	rapidcore.VerifHook = g.at
	return g
}

func (g *Gates) at(point string) {
	if point == "server.beforeReserve" {
		// reference time for the deadline check: the deadline is computed right after Reserve returns
		g.rec.Emit("hook", "ReserveAt", "nowMs", time.Now().UnixMilli())
	}
	g.mu.Lock()
	if g.armed[point] == 0 {
		g.mu.Unlock()
		return
	}
	if g.skip[point] > 0 {
		g.skip[point]--
		g.mu.Unlock()
		return
	}
	g.armed[point]--
	ch := make(chan struct{})
	g.held[point] = append(g.held[point], ch)
	g.rec.Emit("hook", "HookEnter", "point", point)
	g.mu.Unlock()
	<-ch
}

// Hold arms the point for n arrivals after letting the next skip arrivals pass.
func (g *Gates) Hold(point string, n, skip int) {
	if n <= 0 {
		n = 1
	}
	g.mu.Lock()
	g.armed[point] += n
	g.skip[point] = skip
	g.mu.Unlock()
}

// Release lets the longest-held goroutine at the point continue; if none is held the point is disarmed (false).
func (g *Gates) Release(point string) bool {
	g.mu.Lock()
	defer g.mu.Unlock()
	q := g.held[point]
	if len(q) == 0 {
		// nobody got there: disarm, so that later arrivals pass
		g.armed[point] = 0
		g.skip[point] = 0
		return false
	}
	g.held[point] = q[1:]
	g.rec.Emit("hook", "HookLeave", "point", point)
	close(q[0])
	return true
}

// ReleaseAll disarms every point and frees every held goroutine (end of scenario; not recorded).
func (g *Gates) ReleaseAll() {
	g.mu.Lock()
	defer g.mu.Unlock()
	for p := range g.armed {
		g.armed[p] = 0
	}
	for p, q := range g.held {
		for _, ch := range q {
			close(ch)
		}
		g.held[p] = nil
	}
}
