package stack

import (
	"encoding/json"
	"errors"
	"fmt"
	"os"
	"path/filepath"
	"strings"
	"sync"
	"time"

	"go.amzn.com/lambda/interop"
	"go.amzn.com/lambda/metering"
	"verifharness/gstate"
	"verifharness/rec"
)

// Op is one step of a scenario script.  The driver executes ops one after the
// other; an op with "async" starts the call and continues, "wait" joins it.
type Op struct {
	Op    string `json:"op"`
	Who   string `json:"who,omitempty"`   // rt | ext:<name> | int:<name>
	API   string `json:"api,omitempty"`   // next | response | error | initerror | restorenext | restoreerror | route | register | exterror
	Tag   string `json:"tag,omitempty"`   // name of an async call
	Async bool   `json:"async,omitempty"` // do not wait for the call to return

	ID       string            `json:"id,omitempty"`   // request id class / agent identifier class
	Body     string            `json:"body,omitempty"` // literal body
	Size     int               `json:"size,omitempty"` // generated body of this size ...
	Seed     int               `json:"seed,omitempty"` // ... from this seed
	ErrType  string            `json:"errType,omitempty"`
	Headers  map[string]string `json:"headers,omitempty"`
	Events   []string          `json:"events,omitempty"`
	Features string            `json:"features,omitempty"`
	Name     string            `json:"name,omitempty"`
	Which    string            `json:"which,omitempty"` // exterror: init | exit
	Method   string            `json:"method,omitempty"`
	Path     string            `json:"path,omitempty"`

	Caller int    `json:"caller,omitempty"`
	Label  string `json:"label,omitempty"` // payload label (default p<k>)
	Ctx    string `json:"ctx,omitempty"`
	Trace  string `json:"trace,omitempty"`
	BadCtx bool   `json:"badCtx,omitempty"` // front-end mode: send a client context header that is not base64

	// until
	Actor string `json:"actor,omitempty"`
	Ev    string `json:"ev,omitempty"`
	Key   string `json:"key,omitempty"`
	Val   string `json:"val,omitempty"`
	N     int    `json:"n,omitempty"`
	State string `json:"state,omitempty"`

	Ms     int    `json:"ms,omitempty"`
	Soft   bool   `json:"soft,omitempty"`
	Code   int    `json:"code,omitempty"`
	Signal int    `json:"signal,omitempty"`
	Reason string `json:"reason,omitempty"`
	Gen    int    `json:"gen,omitempty"`   // address the process of this generation (default: latest)
	Since  string `json:"since,omitempty"` // until: only events recorded after this mark
	Point  string `json:"point,omitempty"` // hold / release: name of a pause point
	Skip   int    `json:"skip,omitempty"`  // hold: let this many arrivals pass first
}

type Scenario struct {
	ID   string                 `json:"id"`
	Opt  Options                `json:"opt"`
	Ops  []Op                   `json:"ops"`
	Meta map[string]interface{} `json:"meta,omitempty"`
}

type Outcome struct {
	ID     string `json:"id"`
	Status string `json:"status"` // done | hang | error
	Detail string `json:"detail,omitempty"`
	Events int    `json:"events"`
	WallMs int64  `json:"wallMs"`
	Trace  string `json:"trace"`
	Leaked int    `json:"leakedCalls"`
}

type runner struct {
	s       *Stack
	mu      sync.Mutex
	pending map[string]chan struct{}
	invTags map[string]bool
	// requests of the platform driver that carry their own time limit (restore: hook timeout, reset / shutdown:
	// deadline): tag -> that limit in ms; they return within limit + exit grace (2 s) + slack
	platTags map[string]int
	tagOps   map[string]*Op // asynchronous API calls by tag
	marks    map[string]int
	ninv     int
	opWait   time.Duration
}

func (r *runner) proc(op *Op) *Proc {
	who := op.Who
	var kind, base string
	switch {
	case who == "rt":
		kind, base = "rt", "runtime"
	case strings.HasPrefix(who, "ext:"):
		kind, base = "ext", strings.TrimPrefix(who, "ext:")
	default:
		return nil
	}
	if op.Gen > 0 {
		for _, p := range r.s.Sup.All() {
			if p.Kind == kind && p.Base == base && p.Gen == op.Gen {
				return p
			}
		}
		return nil
	}
	return r.s.Sup.Latest(kind, base)
}

func (op *Op) body() []byte {
	if op.Body != "" {
		return []byte(op.Body)
	}
	if op.Size > 0 {
		return GenBody(op.Size, op.Seed)
	}
	return []byte{}
}

func (r *runner) call(op *Op) {
	s := r.s
	p := r.proc(op)
	if p != nil && !p.Alive() {
		// a dead process makes no calls
		s.Rec.Emit("drv", "Skip", "who", op.Who, "api", op.API)
		return
	}
	switch op.API {
	case "next":
		if op.Who == "rt" || op.Who == "" {
			s.RtNext(p, "rt")
		} else {
			s.ExtNext(p, op.Who, op.ID)
		}
	case "nextabort":
		s.RtNextAbort(p, op.Size)
	case "response":
		s.RtResponse(p, "rt", op.ID, op.body(), op.Headers)
	case "error":
		s.RtError(p, "rt", op.ID, op.ErrType, op.body(), op.Headers)
	case "initerror":
		s.RtInitError(p, "rt", op.ErrType, op.body())
	case "restorenext":
		s.RtRestoreNext(p, "rt")
	case "restoreerror":
		s.RtRestoreError(p, "rt", op.ErrType)
	case "route":
		who := op.Who
		if who == "" {
			who = "rt"
		}
		s.Route(p, who, op.Method, op.Path, op.Name, op.Headers, op.body())
	case "register":
		name := op.Name
		if name == "" {
			name = strings.TrimPrefix(strings.TrimPrefix(op.Who, "ext:"), "int:")
		}
		if name == "-" {
			name = ""
		}
		s.ExtRegister(p, op.Who, name, op.Events, op.Features, op.Body)
	case "exterror":
		s.ExtError(p, op.Who, op.Which, op.ID, op.ErrType)
	case "invoke":
		label := op.Label
		caller := op.Caller
		if caller == 0 {
			caller = 1
		}
		if s.Opt.FrontEnd {
			s.FEInvoke(caller, op.body(), op.Ctx, op.Trace, op.BadCtx)
		} else {
			s.Invoke(caller, op.body(), label, op.Ctx, op.Trace)
		}
	case "reset":
		s.Rec.Emit("plat", "ResetCall", "reason", op.Reason, "timeoutMs", op.Ms)
		_, err := s.Srv.Reset(op.Reason, int64(op.Ms))
		s.Rec.Emit("plat", "ResetRet", "reason", op.Reason, "err", errStr(err))
	case "shutdown":
		s.Rec.Emit("plat", "ShutdownCall", "timeoutMs", op.Ms)
		s.Srv.Shutdown(&interop.Shutdown{DeadlineNs: metering.Monotime() + int64(op.Ms)*1000*1000})
		s.Rec.Emit("plat", "ShutdownRet")
	case "restore":
		s.Rec.Emit("plat", "RestoreCall", "timeoutMs", op.Ms, "label", op.Label)
		t0 := time.Now()
		_, err := s.Srv.Restore(&interop.Restore{AwsKey: "RK" + op.Label, AwsSecret: "RS" + op.Label, AwsSession: "RT" + op.Label,
			CredentialsExpiry: s.restoreExpiry(), RestoreHookTimeoutMs: int64(op.Ms)})
		es := errStr(err)
		var ue interop.ErrRestoreHookUserError
		if errors.As(err, &ue) {
			es = "usererr:" + string(ue.UserError.Type)
		}
		s.Rec.Emit("plat", "RestoreRet", "err", es, "durMs", time.Since(t0).Milliseconds(), "timeoutMs", op.Ms)
	case "creds":
		s.Creds(p, op.ID)
	default:
		s.Rec.Emit("drv", "BadOp", "api", op.API)
	}
}

func errStr(err error) string {
	if err == nil {
		return ""
	}
	return err.Error()
}

type hangError struct{ what string }

func (h hangError) Error() string { return h.what }

func (r *runner) until(op *Op) error {
	deadline := time.Now().Add(r.opWait)
	if op.Soft && op.Ms > 0 {
		// a soft wait (programs generated from behaviours of the specification: the real run may legitimately take
		// another course): wait at most op.Ms, then go on
		deadline = time.Now().Add(time.Duration(op.Ms) * time.Millisecond)
	}
	for {
		ok := false
		switch {
		case op.State != "":
			if op.Who == "rt" {
				ok = r.s.RuntimeState() == op.State
			} else {
				ok = r.s.AgentState(strings.TrimPrefix(strings.TrimPrefix(op.Who, "ext:"), "int:")) == op.State
			}
			if ok {
				// an observation of the emulator's state (internal state endpoint): part of the trace
				r.s.Rec.Emit("drv", "StateSeen", "who", op.Who, "state", op.State)
			}
		case op.Ev != "":
			n := op.N
			if n == 0 {
				n = 1
			}
			cnt := 0
			since := 0
			if op.Since != "" {
				r.mu.Lock()
				since = r.marks[op.Since]
				r.mu.Unlock()
			}
			for _, e := range r.s.Rec.Events() {
				if e["ev"] != op.Ev {
					continue
				}
				if sq, _ := e["seq"].(int); sq <= since {
					continue
				}
				if op.Actor != "" && e["actor"] != op.Actor {
					continue
				}
				if op.Key != "" && fmt.Sprint(e[op.Key]) != op.Val {
					continue
				}
				cnt++
			}
			ok = cnt >= n
		}
		if ok {
			return nil
		}
		if time.Now().After(deadline) {
			if op.Soft {
				return nil
			}
			return hangError{fmt.Sprintf("until %+v not reached", *op)}
		}
		time.Sleep(200 * time.Microsecond)
	}
}

func (r *runner) settle(op *Op) error {
	r.mu.Lock()
	ch := r.pending[op.Tag]
	r.mu.Unlock()
	deadline := time.Now().Add(500 * time.Millisecond)
	name := strings.TrimPrefix(strings.TrimPrefix(op.Who, "ext:"), "int:")
	for {
		if ch != nil {
			select {
			case <-ch:
				return nil
			default:
			}
		}
		if op.Who == "rt" {
			if r.s.RuntimeState() == "Ready" {
				return nil
			}
		} else if r.s.AgentState(name) == "Ready" {
			return nil
		}
		if time.Now().After(deadline) {
			// e.g. parked on an object that a reset has dropped from the registration maps: the driver goes on,
			// the trace decides
			r.s.Rec.Emit("drv", "SettleGaveUp", "who", op.Who, "tag", op.Tag)
			return nil
		}
		time.Sleep(200 * time.Microsecond)
	}
}

// Run executes one scenario on a fresh stack.
func Run(sc *Scenario, outDir string) Outcome {
	t0 := time.Now()
	out := Outcome{ID: sc.ID, Status: "done", Trace: filepath.Join(outDir, sc.ID+".ndjson")}
	s, err := New(sc.Opt)
	if err != nil {
		out.Status, out.Detail = "error", err.Error()
		return out
	}
	defer s.Close()
	_ = s.Rec.StreamTo(filepath.Join(outDir, sc.ID+".partial.ndjson"))
	defer os.Remove(filepath.Join(outDir, sc.ID+".partial.ndjson"))
	defer s.Rec.CloseStream()
	r := &runner{s: s, pending: map[string]chan struct{}{}, invTags: map[string]bool{}, platTags: map[string]int{}, tagOps: map[string]*Op{}, marks: map[string]int{}, opWait: 20 * time.Second}
	if sc.Opt.OpWaitMs > 0 {
		r.opWait = time.Duration(sc.Opt.OpWaitMs) * time.Millisecond
	}
	var wg sync.WaitGroup
	stop := false
	for i := range sc.Ops {
		op := &sc.Ops[i]
		var herr error
		switch op.Op {
		case "init":
			if !s.Opt.FrontEnd { // the front end initialises on the first request
				s.Init()
			}
		case "call":
			if op.Async {
				ch := make(chan struct{})
				if op.Tag != "" {
					r.mu.Lock()
					r.pending[op.Tag] = ch
					if op.API == "invoke" {
						r.invTags[op.Tag] = true
					}
					if op.API == "restore" || op.API == "reset" || op.API == "shutdown" {
						r.platTags[op.Tag] = op.Ms
					}
					r.tagOps[op.Tag] = op
					r.mu.Unlock()
				}
				wg.Add(1)
				go func() {
					defer wg.Done()
					defer close(ch)
					r.call(op)
				}()
			} else {
				done := make(chan struct{})
				go func() { defer close(done); r.call(op) }()
				select {
				case <-done:
				case <-time.After(r.opWait):
					herr = hangError{fmt.Sprintf("synchronous call %+v did not return", *op)}
				}
			}
		case "wait":
			r.mu.Lock()
			ch := r.pending[op.Tag]
			isInv := r.invTags[op.Tag]
			platMs, isPlat := r.platTags[op.Tag]
			r.mu.Unlock()
			if ch != nil {
				bound := r.opWait
				if isInv {
					// an invocation must be answered within timeout + reset allowance (2 s) + exit grace (2 s) + slack
					bound = time.Duration(s.Opt.TimeoutMs)*time.Millisecond + 4*time.Second + 3*time.Second
				}
				if isPlat {
					if platMs < 0 {
						platMs = 0
					}
					bound = time.Duration(platMs)*time.Millisecond + 2*time.Second + 3*time.Second
				}
				select {
				case <-ch:
				case <-time.After(bound):
					if isInv || isPlat {
						s.Rec.Emit("drv", "NoOutcome", "tag", op.Tag, "boundMs", bound.Milliseconds())
					} else if co := r.tagOps[op.Tag]; co != nil && co.Who != "" {
						// the script waited for the answer of an API call and it did not come: whether it was due is for the
						// specification to say (a poll that is legitimately parked explains it, a call whose answer was
						// computed or whose wake-up was enabled does not)
						s.Rec.Emit("drv", "NoAnswer", "who", co.Who, "api", co.API, "tag", op.Tag, "boundMs", bound.Milliseconds())
					}
					herr = hangError{"wait " + op.Tag + " did not return"}
				}
			}
		case "settle":
			// wait until the asynchronous call has returned or its party is parked in a poll
			herr = r.settle(op)
		case "until":
			herr = r.until(op)
		case "expect":
			// like until, bounded by op.Ms: if the event does not come the trace gets a Missing event (which no
			// action of the specification explains) and the scenario ends there
			save := r.opWait
			if op.Ms > 0 {
				r.opWait = time.Duration(op.Ms) * time.Millisecond
			}
			err := r.until(op)
			r.opWait = save
			if err != nil {
				s.Rec.Emit("drv", "Missing", "what", fmt.Sprintf("%s %s=%s n=%d since=%s", op.Ev, op.Key, op.Val, op.N, op.Since))
				stop = true
			}
		case "sleep":
			time.Sleep(time.Duration(op.Ms) * time.Millisecond)
		case "exit":
			if p := r.proc(op); p != nil {
				if op.Signal != 0 {
					s.Sup.Signal(p, op.Signal)
				} else {
					s.Sup.Exit(p, op.Code)
				}
			} else {
				s.Rec.Emit("drv", "NoProc", "who", op.Who)
			}
		case "hold":
			s.Gates.Hold(op.Point, op.N, op.Skip)
		case "release":
			if !s.Gates.Release(op.Point) {
				s.Rec.Emit("drv", "NothingHeld", "point", op.Point)
			}
		case "mark":
			sq := s.Rec.Emit("drv", "Mark", "name", op.Name)
			r.mu.Lock()
			r.marks[op.Name] = sq
			r.mu.Unlock()
		default:
			s.Rec.Emit("drv", "BadOp", "op", op.Op)
		}
		if stop {
			break
		}
		if herr != nil {
			out.Status, out.Detail = "hang", herr.Error()
			s.Rec.Emit("drv", "Hang", "detail", herr.Error(), "op", i)
			_ = os.WriteFile(filepath.Join(outDir, sc.ID+".goroutines.txt"), []byte(gstate.Dump()), 0o644)
			break
		}
	}
	// the trace ends here; polls that are still parked are aborted on the client side
	s.Rec.Emit("drv", "End", "status", out.Status)
	evs := s.Rec.Events()
	s.AbortClients()
	joined := make(chan struct{})
	go func() { wg.Wait(); close(joined) }()
	select {
	case <-joined:
	case <-time.After(r.opWait):
		if out.Status == "done" {
			// e.g. a caller inside Server.Invoke: cannot be aborted from outside
			out.Status, out.Detail = "hang", "calls still outstanding after the end of the script"
			_ = os.WriteFile(filepath.Join(outDir, sc.ID+".goroutines.txt"), []byte(gstate.Dump()), 0o644)
		}
	}
	out.Events = len(evs)
	if err := rec.WriteNDJSON(out.Trace, evs); err != nil {
		out.Status, out.Detail = "error", err.Error()
	}
	out.WallMs = time.Since(t0).Milliseconds()
	return out
}

// RunFile runs scenarios of a JSON file (array) from index `from`, writing a
// start marker before each so that a crash of this process is attributable.
func RunFile(path, outDir string, from int) error {
	b, err := os.ReadFile(path)
	if err != nil {
		return err
	}
	var scs []Scenario
	if err := json.Unmarshal(b, &scs); err != nil {
		return err
	}
	if err := os.MkdirAll(outDir, 0o755); err != nil {
		return err
	}
	outF, err := os.OpenFile(filepath.Join(outDir, "outcomes.ndjson"), os.O_CREATE|os.O_APPEND|os.O_WRONLY, 0o644)
	if err != nil {
		return err
	}
	defer outF.Close()
	for i := from; i < len(scs); i++ {
		_ = os.WriteFile(filepath.Join(outDir, "current"), []byte(fmt.Sprintf("%d %s", i, scs[i].ID)), 0o644)
		o := Run(&scs[i], outDir)
		jb, _ := json.Marshal(o)
		outF.Write(append(jb, '\n'))
		if o.Status == "hang" {
			// leaked goroutines of a hung stack could disturb later scenarios: restart in a fresh process
			_ = os.WriteFile(filepath.Join(outDir, "current"), []byte(fmt.Sprintf("%d restart", i+1)), 0o644)
			os.Exit(3)
		}
	}
	_ = os.WriteFile(filepath.Join(outDir, "current"), []byte(fmt.Sprintf("%d finished", len(scs))), 0o644)
	return nil
}
