package stack

import (
	"sort"

	"go.amzn.com/lambda/interop"
	"verifharness/rec"
)

// telRecorder is the EventsAPI given to the sandbox: platform lifecycle events
// become events of the same trace as the actors' events (property C15).
type telRecorder struct {
	r     *rec.Recorder
	reqID string
}

func strp(p *string) string {
	if p == nil {
		return ""
	}
	return *p
}

func (t *telRecorder) SetCurrentRequestID(id interop.RequestID) { t.reqID = string(id) }
func (t *telRecorder) SendInitStart(d interop.InitStartData) error {
	t.r.Emit("plat", "Tel", "kind", "InitStart", "phase", string(d.Phase), "itype", string(d.InitializationType),
		"fn", d.FunctionName, "ver", d.FunctionVersion)
	return nil
}
func (t *telRecorder) SendInitRuntimeDone(d interop.InitRuntimeDoneData) error {
	t.r.Emit("plat", "Tel", "kind", "InitRuntimeDone", "phase", string(d.Phase), "status", d.Status, "errType", strp(d.ErrorType))
	return nil
}
func (t *telRecorder) SendInitReport(d interop.InitReportData) error {
	t.r.Emit("plat", "Tel", "kind", "InitReport", "phase", string(d.Phase))
	return nil
}
func (t *telRecorder) SendRestoreRuntimeDone(d interop.RestoreRuntimeDoneData) error {
	t.r.Emit("plat", "Tel", "kind", "RestoreRuntimeDone", "status", d.Status, "errType", strp(d.ErrorType))
	return nil
}
func (t *telRecorder) SendInvokeStart(d interop.InvokeStartData) error {
	t.r.Emit("plat", "Tel", "kind", "InvokeStart", "reqid", d.RequestID)
	return nil
}
func (t *telRecorder) SendInvokeRuntimeDone(d interop.InvokeRuntimeDoneData) error {
	t.r.Emit("plat", "Tel", "kind", "RuntimeDone", "status", d.Status, "errType", strp(d.ErrorType), "reqid", t.reqID)
	return nil
}
func (t *telRecorder) SendExtensionInit(d interop.ExtensionInitData) error {
	subs := append([]string{}, d.Subscriptions...)
	sort.Strings(subs)
	t.r.Emit("plat", "Tel", "kind", "ExtensionInit", "name", d.AgentName, "state", d.State, "errType", d.ErrorType, "subs", subs)
	return nil
}
func (t *telRecorder) SendReportSpan(interop.Span) error { return nil }
func (t *telRecorder) SendReport(interop.ReportData) error { return nil }
func (t *telRecorder) SendEnd(interop.EndData) error     { return nil }
func (t *telRecorder) SendFault(interop.FaultData) error { return nil }
func (t *telRecorder) SendImageErrorLog(interop.ImageErrorLogData) {
	t.r.Emit("plat", "Tel", "kind", "ImageErrorLog")
}
func (t *telRecorder) FetchTailLogs(string) (string, error) { return "", nil }
func (t *telRecorder) GetRuntimeDoneSpans(int64, *interop.InvokeResponseMetrics, int64, int64) []interop.Span {
	return nil
}
