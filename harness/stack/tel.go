package stack

import (
	"context"
	"encoding/json"
	"sort"

	"go.amzn.com/lambda/appctx"
	"go.amzn.com/lambda/interop"
	"go.amzn.com/lambda/telemetry"
	"verifharness/rec"
)

// recTracer is the tracer given to the sandbox: at the end of every invocation it records what the emulator would
// hand to the X-Ray segment as the error cause (the trace data stored by the error handlers of the Runtime API):
// absent, or its size and whether it is a JSON object made of the recognised fields only (property C20).
type recTracer struct {
	telemetry.NoOpTracer
	r *rec.Recorder
}

func (t *recTracer) WithErrorCause(ctx context.Context, appCtx appctx.ApplicationContext, fn func(ctx context.Context) error) func(ctx context.Context) error {
	return func(ctx context.Context) error {
		err := fn(ctx)
		td := appctx.LoadInvokeErrorTraceData(appCtx)
		class, size := "none", 0
		if td != nil && len(td.ErrorCause) > 0 {
			size = len(td.ErrorCause)
			class = CauseClass(td.ErrorCause)
		}
		t.r.Emit("plat", "TraceCause", "class", class, "size", size)
		return err
	}
}

// CauseClass: "bounded" = valid JSON of at most 64 KiB that is an object with recognised fields only and at least one
// of them; otherwise what is wrong with it.
func CauseClass(b []byte) string {
	if !json.Valid(b) {
		return "bad:invalid-json"
	}
	if len(b) > 64*1024 {
		return "bad:too-large"
	}
	var m map[string]json.RawMessage
	if json.Unmarshal(b, &m) != nil {
		return "bad:not-an-object"
	}
	known := 0
	for k := range m {
		switch k {
		case "exceptions", "working_directory", "paths", "message":
			known++
		default:
			return "bad:unrecognised-field"
		}
	}
	if known == 0 {
		return "bad:no-recognised-field"
	}
	return "bounded"
}

// telRecorder is the EventsAPI given to the sandbox: platform lifecycle events
// become events of the same trace as the actors' events (property C15).
type telRecorder struct {
	r     *rec.Recorder
	reqID string
}

func strp(p *string) string {
	if p == nil {
		return ""
	}
	return *p
}

func (t *telRecorder) SetCurrentRequestID(id interop.RequestID) { t.reqID = string(id) }
func (t *telRecorder) SendInitStart(d interop.InitStartData) error {
	t.r.Emit("plat", "Tel", "kind", "InitStart", "phase", string(d.Phase), "itype", string(d.InitializationType),
		"fn", d.FunctionName, "ver", d.FunctionVersion)
	return nil
}
func (t *telRecorder) SendInitRuntimeDone(d interop.InitRuntimeDoneData) error {
	t.r.Emit("plat", "Tel", "kind", "InitRuntimeDone", "phase", string(d.Phase), "status", d.Status, "errType", strp(d.ErrorType))
	return nil
}
func (t *telRecorder) SendInitReport(d interop.InitReportData) error {
	t.r.Emit("plat", "Tel", "kind", "InitReport", "phase", string(d.Phase))
	return nil
}
func (t *telRecorder) SendRestoreRuntimeDone(d interop.RestoreRuntimeDoneData) error {
	t.r.Emit("plat", "Tel", "kind", "RestoreRuntimeDone", "status", d.Status, "errType", strp(d.ErrorType))
	return nil
}
func (t *telRecorder) SendInvokeStart(d interop.InvokeStartData) error {
	t.r.Emit("plat", "Tel", "kind", "InvokeStart", "reqid", d.RequestID)
	return nil
}
func (t *telRecorder) SendInvokeRuntimeDone(d interop.InvokeRuntimeDoneData) error {
	t.r.Emit("plat", "Tel", "kind", "RuntimeDone", "status", d.Status, "errType", strp(d.ErrorType), "reqid", t.reqID)
	return nil
}
func (t *telRecorder) SendExtensionInit(d interop.ExtensionInitData) error {
	subs := append([]string{}, d.Subscriptions...)
	sort.Strings(subs)
	t.r.Emit("plat", "Tel", "kind", "ExtensionInit", "name", d.AgentName, "state", d.State, "errType", d.ErrorType, "subs", subs)
	return nil
}
func (t *telRecorder) SendReportSpan(interop.Span) error   { return nil }
func (t *telRecorder) SendReport(interop.ReportData) error { return nil }
func (t *telRecorder) SendEnd(interop.EndData) error       { return nil }
func (t *telRecorder) SendFault(interop.FaultData) error   { return nil }
func (t *telRecorder) SendImageErrorLog(interop.ImageErrorLogData) {
	t.r.Emit("plat", "Tel", "kind", "ImageErrorLog")
}
func (t *telRecorder) FetchTailLogs(string) (string, error) { return "", nil }
func (t *telRecorder) GetRuntimeDoneSpans(int64, *interop.InvokeResponseMetrics, int64, int64) []interop.Span {
	return nil
}
