package stack

import (
	"context"
	"fmt"
	"regexp"
	"strconv"
	"strings"
	"sync"
	"time"

	supvmodel "go.amzn.com/lambda/supervisor/model"
	"verifharness/rec"
)

// Proc is one scripted process started through the fake supervisor.
type Proc struct {
	Name string // runtime-1, extension-e1-1
	Kind string // "rt" | "ext"
	Base string // e1
	Gen  int
	Env  map[string]string
	Path string

	ctx    context.Context
	cancel context.CancelFunc

	mu      sync.Mutex
	dead    bool
	onTerm  string // "exit" | "ignore"
	AgentID string // set after a successful register
	idGen   int
}

func (p *Proc) Alive() bool {
	p.mu.Lock()
	defer p.mu.Unlock()
	return !p.dead
}

// FakeSup implements supvmodel.ProcessSupervisor.  Contract (spec/Supervisor.tla):
// exactly one termination event per exec'd process, Kill returns after the
// process is dead, Kill of a dead process succeeds without a second event,
// unknown names are refused.
type FakeSup struct {
	rec    *rec.Recorder
	mu     sync.Mutex
	lifeMu sync.Mutex // orders deaths against Kill / Terminate records
	procs  map[string]*Proc
	order  []*Proc
	events chan supvmodel.Event

	// behaviour knobs, set by the scenario before the processes start
	LaunchFail   map[string]bool   // base name ("runtime" for the runtime) -> Exec returns an error
	OnTerm       map[string]string // base name -> "exit" | "ignore"
	ExitInExec   map[string]int    // base name -> exit code; the process dies before Exec returns (F-C06-1 window)
	ExecLatency  time.Duration     // Exec returns this long after the process started
	FullEnv      bool              // record complete environments in Exec events
	ExitLag      time.Duration     // the termination event is sent this long after the process died
	ExitLagGens  int               // > 0: ... only for processes of the first ExitLagGens generations
	OnTermByPath bool              // C19 self-check: behaviour is taken from the shell script (ignoreterm / forkignore ignore TERM)
	execWaiters  []chan struct{}
	deliverDelay time.Duration
}

func NewFakeSup(r *rec.Recorder) *FakeSup {
	return &FakeSup{rec: r, procs: map[string]*Proc{}, events: make(chan supvmodel.Event),
		LaunchFail: map[string]bool{}, OnTerm: map[string]string{}, ExitInExec: map[string]int{}}
}

var procNameRe = regexp.MustCompile(`^(runtime|extension-(.*))-(\d+)$`)

func parseProcName(name string) (kind, base string, gen int) {
	m := procNameRe.FindStringSubmatch(name)
	if m == nil {
		return "other", name, 0
	}
	gen, _ = strconv.Atoi(m[3])
	if m[1] == "runtime" {
		return "rt", "runtime", gen
	}
	return "ext", m[2], gen
}

func (s *FakeSup) Exec(ctx context.Context, req *supvmodel.ExecRequest) error {
	kind, base, gen := parseProcName(req.Name)
	env := map[string]string{}
	if req.Env != nil {
		for k, v := range *req.Env {
			env[k] = v
		}
	}
	s.mu.Lock()
	fail := s.LaunchFail[base]
	_, dup := s.procs[req.Name]
	s.mu.Unlock()
	kv := []interface{}{"name", req.Name, "kind", kind, "base", base, "gen", gen, "path", req.Path,
		"api", env["AWS_LAMBDA_RUNTIME_API"]}
	if s.FullEnv {
		kv = append(kv, "env", env, "args", req.Args)
	}
	if fail {
		s.rec.Emit("sup", "Exec", append(kv, "err", "launch")...)
		return fmt.Errorf("fork/exec %s: permission denied (scripted launch failure)", req.Path)
	}
	if dup {
		s.rec.Emit("sup", "Exec", append(kv, "err", "duplicate")...)
		return fmt.Errorf("process %s exists", req.Name)
	}
	pctx, cancel := context.WithCancel(context.Background())
	p := &Proc{Name: req.Name, Kind: kind, Base: base, Gen: gen, Env: env, Path: req.Path, ctx: pctx, cancel: cancel}
	s.mu.Lock()
	p.onTerm = s.OnTerm[base]
	if p.onTerm == "" {
		p.onTerm = "exit"
	}
	if s.OnTermByPath && len(req.Args) == 2 && strings.Contains(req.Args[1], "trap '' TERM") {
		p.onTerm = "ignore"
	}
	s.procs[req.Name] = p
	s.order = append(s.order, p)
	code, early := s.ExitInExec[base]
	lat := s.ExecLatency
	// the start is on record before anybody can find the process (and, say, make it exit)
	s.rec.Emit("sup", "Exec", append(kv, "err", "")...)
	s.mu.Unlock()
	if early {
		s.die(p, &code, nil, "self")
	}
	if lat > 0 {
		time.Sleep(lat)
	}
	return nil
}

// die marks the process dead (once) and delivers its single termination event.
func (s *FakeSup) die(p *Proc, exit *int, signo *int, cause string) bool {
	// death and its ProcExit record are one atomic step with respect to Kill/Terminate records (lifeMu)
	s.lifeMu.Lock()
	defer s.lifeMu.Unlock()
	return s.dieLocked(p, exit, signo, cause)
}

func (s *FakeSup) dieLocked(p *Proc, exit *int, signo *int, cause string) bool {
	p.mu.Lock()
	if p.dead {
		p.mu.Unlock()
		return false
	}
	p.dead = true
	p.mu.Unlock()
	ev := supvmodel.Event{Time: uint64(time.Now().UnixMilli())}
	dom := "runtime"
	name := p.Name
	ev.Event.Domain = &dom
	ev.Event.Name = &name
	status := ""
	if exit != nil {
		v := int32(*exit)
		ev.Event.ExitStatus = &v
		status = fmt.Sprintf("exit:%d", *exit)
	} else {
		v := int32(*signo)
		ev.Event.Signo = &v
		status = fmt.Sprintf("signal:%d", *signo)
	}
	s.rec.Emit("sup", "ProcExit", "name", p.Name, "kind", p.Kind, "base", p.Base, "gen", p.Gen, "status", status, "cause", cause)
	// the death is on record before the process's connections break
	p.cancel()
	lag := s.ExitLag
	if s.ExitLagGens > 0 && p.Gen > s.ExitLagGens {
		lag = 0
	}
	go func() {
		if lag > 0 {
			time.Sleep(lag)
		}
		// ExitSend: the earliest moment the watcher can receive the notification
		s.rec.Emit("sup", "ExitSend", "name", p.Name, "kind", p.Kind, "base", p.Base, "gen", p.Gen, "status", status)
		s.events <- ev
		s.rec.Emit("sup", "ExitDelivered", "name", p.Name, "kind", p.Kind, "base", p.Base, "gen", p.Gen, "status", status)
	}()
	return true
}

func (s *FakeSup) find(name string) *Proc {
	s.mu.Lock()
	defer s.mu.Unlock()
	return s.procs[name]
}

func noSuch() error {
	msg := "Unknown process"
	return &supvmodel.SupervisorError{Kind: supvmodel.NoSuchEntity, Message: &msg}
}

func (s *FakeSup) Terminate(ctx context.Context, req *supvmodel.TerminateRequest) error {
	p := s.find(req.Name)
	if p == nil {
		s.rec.Emit("sup", "Terminate", "name", req.Name, "err", "unknown")
		return noSuch()
	}
	s.lifeMu.Lock()
	defer s.lifeMu.Unlock()
	s.rec.Emit("sup", "Terminate", "name", req.Name, "kind", p.Kind, "base", p.Base, "gen", p.Gen, "err", "", "alive", p.Alive())
	p.mu.Lock()
	onTerm := p.onTerm
	p.mu.Unlock()
	if onTerm == "exit" {
		sig := 15
		s.dieLocked(p, nil, &sig, "term")
	}
	return nil
}

func (s *FakeSup) Kill(ctx context.Context, req *supvmodel.KillRequest) error {
	p := s.find(req.Name)
	if p == nil {
		s.rec.Emit("sup", "KillCall", "name", req.Name, "err", "unknown")
		s.rec.Emit("sup", "KillRet", "name", req.Name, "err", "unknown")
		return noSuch()
	}
	s.lifeMu.Lock()
	defer s.lifeMu.Unlock()
	s.rec.Emit("sup", "KillCall", "name", req.Name, "kind", p.Kind, "base", p.Base, "gen", p.Gen, "alive", p.Alive())
	if p.Alive() && time.Until(req.Deadline) < 0 {
		s.rec.Emit("sup", "KillRet", "name", req.Name, "kind", p.Kind, "base", p.Base, "gen", p.Gen, "err", "deadline")
		return fmt.Errorf("invalid timeout while killing %s", req.Name)
	}
	sig := 9
	s.dieLocked(p, nil, &sig, "kill")
	s.rec.Emit("sup", "KillRet", "name", req.Name, "kind", p.Kind, "base", p.Base, "gen", p.Gen, "err", "")
	return nil
}

func (s *FakeSup) Events(ctx context.Context, req *supvmodel.EventsRequest) (<-chan supvmodel.Event, error) {
	return s.events, nil
}

// Exit lets a scripted process exit on its own.
func (s *FakeSup) Exit(p *Proc, code int) { s.die(p, &code, nil, "self") }

// Signal lets a scripted process die from a signal it raised itself / received from outside.
func (s *FakeSup) Signal(p *Proc, signo int) { s.die(p, nil, &signo, "self") }

// Latest returns the most recently exec'd process of the given kind/base (nil if none).
func (s *FakeSup) Latest(kind, base string) *Proc {
	s.mu.Lock()
	defer s.mu.Unlock()
	for i := len(s.order) - 1; i >= 0; i-- {
		p := s.order[i]
		if p.Kind == kind && (base == "" || p.Base == base) {
			return p
		}
	}
	return nil
}

func (s *FakeSup) All() []*Proc {
	s.mu.Lock()
	defer s.mu.Unlock()
	return append([]*Proc{}, s.order...)
}

// NewFakeSupWithRules returns a fake supervisor whose processes behave like the shell children of the
// C19 driver, as far as the supervisor contract is concerned: they die only through Terminate (unless the
// behaviour ignores it) or Kill.  Used to check the fake itself against spec/Supervisor.tla.
func NewFakeSupWithRules(r *rec.Recorder) *FakeSup {
	s := NewFakeSup(r)
	s.OnTermByPath = true
	return s
}
