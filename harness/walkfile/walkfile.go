// Package walkfile reads the edge-covering walks produced by lib/walk.py from a
// TLC state graph (engine E2) and collects replay reports.
package walkfile

import (
	"encoding/json"
	"fmt"
	"os"
)

type Edge struct {
	Src, Dst int
	Name     string
	Args     []json.RawMessage
}

type Path struct {
	Init  int   `json:"init"`
	Edges []int `json:"edges"`
}

type File struct {
	Meta  map[string]interface{} `json:"meta"`
	Nodes []json.RawMessage      `json:"nodes"`
	Edges []Edge                 `json:"-"`
	Paths []Path                 `json:"paths"`

	RawEdges [][]json.RawMessage `json:"edges"`
}

func Load(path string) (*File, error) {
	b, err := os.ReadFile(path)
	if err != nil {
		return nil, err
	}
	var f File
	if err := json.Unmarshal(b, &f); err != nil {
		return nil, err
	}
	f.Edges = make([]Edge, len(f.RawEdges))
	for i, re := range f.RawEdges {
		if len(re) != 4 {
			return nil, fmt.Errorf("edge %d: want 4 fields", i)
		}
		var e Edge
		if err := json.Unmarshal(re[0], &e.Src); err != nil {
			return nil, err
		}
		if err := json.Unmarshal(re[1], &e.Dst); err != nil {
			return nil, err
		}
		if err := json.Unmarshal(re[2], &e.Name); err != nil {
			return nil, err
		}
		if err := json.Unmarshal(re[3], &e.Args); err != nil {
			return nil, err
		}
		f.Edges[i] = e
	}
	f.RawEdges = nil
	return &f, nil
}

func (e Edge) Int(i int) int {
	var v int
	if i < len(e.Args) {
		_ = json.Unmarshal(e.Args[i], &v)
	}
	return v
}

func (e Edge) Str(i int) string {
	var v string
	if i < len(e.Args) {
		_ = json.Unmarshal(e.Args[i], &v)
	}
	return v
}

func (e Edge) Label() string {
	s := e.Name
	if len(e.Args) > 0 {
		s += "("
		for i, a := range e.Args {
			if i > 0 {
				s += ","
			}
			s += string(a)
		}
		s += ")"
	}
	return s
}

// Divergence is one disagreement between the specification's graph and the real code.
type Divergence struct {
	Path     int             `json:"path"`
	Step     int             `json:"step"`
	Prefix   []string        `json:"prefix"`
	Action   string          `json:"action"`
	Expected json.RawMessage `json:"expected"`
	Observed interface{}     `json:"observed"`
	What     string          `json:"what"`
	Init     json.RawMessage `json:"init"`
}

type Report struct {
	Paths        int            `json:"paths"`
	Steps        int            `json:"steps"`
	EdgesCovered int            `json:"edges_covered"`
	EdgesTotal   int            `json:"edges_total"`
	Actions      map[string]int `json:"actions"`
	Divergences  []Divergence   `json:"divergences"`
	Samples      []interface{}  `json:"samples"`
	Error        string         `json:"error,omitempty"`
}

func (r *Report) Write(path string) error {
	b, err := json.MarshalIndent(r, "", " ")
	if err != nil {
		return err
	}
	return os.WriteFile(path, b, 0o644)
}
