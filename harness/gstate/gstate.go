// Package gstate inspects the wait state of goroutines through runtime.Stack.
// A goroutine blocked in sync.Cond.Wait is reported with the header
// "goroutine N [sync.Cond.Wait]:"; sync.Cond.Broadcast/Signal make the woken
// goroutines runnable synchronously, so "parked" is a positive observation.
package gstate

import (
	"bytes"
	"runtime"
	"strconv"
)

// ID returns the id of the calling goroutine.
func ID() int64 {
	var buf [64]byte
	n := runtime.Stack(buf[:], false)
	// "goroutine 123 [running]:"
	b := buf[:n]
	b = bytes.TrimPrefix(b, []byte("goroutine "))
	i := bytes.IndexByte(b, ' ')
	id, _ := strconv.ParseInt(string(b[:i]), 10, 64)
	return id
}

// Snapshot maps goroutine id -> wait state text (e.g. "running", "runnable",
// "sync.Cond.Wait", "chan receive", "select", "IO wait").
func Snapshot() map[int64]string {
	buf := make([]byte, 1<<16)
	for {
		n := runtime.Stack(buf, true)
		if n < len(buf) {
			buf = buf[:n]
			break
		}
		buf = make([]byte, 2*len(buf))
	}
	res := map[int64]string{}
	for len(buf) > 0 {
		nl := bytes.IndexByte(buf, '\n')
		var line []byte
		if nl < 0 {
			line, buf = buf, nil
		} else {
			line, buf = buf[:nl], buf[nl+1:]
		}
		if !bytes.HasPrefix(line, []byte("goroutine ")) {
			continue
		}
		rest := line[len("goroutine "):]
		sp := bytes.IndexByte(rest, ' ')
		if sp < 0 {
			continue
		}
		id, err := strconv.ParseInt(string(rest[:sp]), 10, 64)
		if err != nil {
			continue
		}
		lb := bytes.IndexByte(rest, '[')
		rb := bytes.LastIndexByte(rest, ']')
		if lb < 0 || rb < lb {
			continue
		}
		st := string(rest[lb+1 : rb])
		// strip ", 2 minutes" / ", locked to thread"
		if c := bytes.IndexByte([]byte(st), ','); c >= 0 {
			st = st[:c]
		}
		res[id] = st
	}
	return res
}

// Dump returns the stacks of all goroutines.
func Dump() string {
	buf := make([]byte, 1<<20)
	for {
		n := runtime.Stack(buf, true)
		if n < len(buf) {
			return string(buf[:n])
		}
		buf = make([]byte, 2*len(buf))
	}
}
