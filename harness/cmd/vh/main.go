// Command vh is the Go side of the verification harness: replayers, scenario
// runner and trace recorders, selected by the first argument.
package main

import (
	"encoding/json"
	"flag"
	"fmt"
	"os"

	supvmodel "go.amzn.com/lambda/supervisor/model"
	"verifharness/dinvoke"
	"verifharness/envcheck"
	"verifharness/gate"
	"verifharness/rec"
	"verifharness/sanitize"
	"verifharness/stack"
	"verifharness/supv"
	"verifharness/walkfile"
)

func die(format string, a ...interface{}) {
	fmt.Fprintf(os.Stderr, format+"\n", a...)
	os.Exit(2)
}

func main() {
	if len(os.Args) < 2 {
		die("usage: vh <subcommand> ...")
	}
	sub := os.Args[1]
	fs := flag.NewFlagSet(sub, flag.ExitOnError)
	in := fs.String("in", "", "input file")
	out := fs.String("out", "", "output file")
	maxDiv := fs.Int("maxdiv", 5, "stop after this many divergences")
	from := fs.Int("from", 0, "first scenario index")
	seed := fs.Int("seed", 1, "seed for concretisation")
	reps := fs.Int("reps", 2, "concrete inputs per abstract case")
	quiet := fs.Bool("quiet", true, "silence the emulator's log")
	fake := fs.Bool("fake", false, "supv: drive the fake supervisor")
	_ = fs.Parse(os.Args[2:])
	switch sub {
	case "gatewalk":
		f, err := walkfile.Load(*in)
		if err != nil {
			die("load: %v", err)
		}
		rep := gate.ReplayWalk(f, *maxDiv)
		if err := rep.Write(*out); err != nil {
			die("write: %v", err)
		}
	case "flowprog":
		evs := gate.FlowProgram(int64(*seed), *reps, 40)
		f, err := os.Create(*out)
		if err != nil {
			die("create: %v", err)
		}
		enc := json.NewEncoder(f)
		for _, e := range evs {
			_ = enc.Encode(e)
		}
		f.Close()
	case "gatestress":
		obs := gate.Stress(int64(*seed), *reps)
		f, err := os.Create(*out)
		if err != nil {
			die("create: %v", err)
		}
		enc := json.NewEncoder(f)
		for _, o := range obs {
			_ = enc.Encode(o)
		}
		f.Close()
	case "envcases":
		stack.Quiet()
		cases, err := envcheck.Load(*in)
		if err != nil {
			die("load: %v", err)
		}
		rep := &envcheck.Report{}
		envcheck.RunAPI(cases, rep)
		envcheck.RunFullStack(cases, rep)
		b, _ := json.MarshalIndent(rep, "", " ")
		if err := os.WriteFile(*out, b, 0o644); err != nil {
			die("write: %v", err)
		}
	case "sanitize":
		stack.Quiet()
		cases, err := sanitize.Load(*in)
		if err != nil {
			die("load: %v", err)
		}
		rep := sanitize.Run(cases, int64(*seed), *reps)
		b, _ := json.MarshalIndent(rep, "", " ")
		if err := os.WriteFile(*out, b, 0o644); err != nil {
			die("write: %v", err)
		}
	case "supv":
		stack.Quiet()
		// -reps traces, written as <out>/<k>.ndjson; -fake validates the harness's fake supervisor instead
		_ = os.MkdirAll(*out, 0o755)
		for k := 0; k < *reps; k++ {
			opt := supv.Options{Seed: int64(*seed)*1000 + int64(k), Procs: 2 + k%3}
			if !*fake && k == *reps-1 {
				// the last trace: a burst of 24 short-lived processes while nobody reads the events channel
				opt.Procs, opt.Burst, opt.PauseReaderMs = 24, true, 400
			}
			if !*fake && k == *reps-2 {
				// scripted: leaders that exit and leave a child holding their output; the first two are met only by the
				// Kill of the clean-up, the others by a Terminate (group observed afterwards)
				opt.Procs = 9
				// (index 4 has a slow log writer: its process exits at 30 ms, its last words are being written until
				//  about 730 ms, the Kill comes at 130 ms, waits for them and succeeds; the Terminates of the others at
				//  150 ms do not wait for anything)
				opt.Fixed = []supv.FixedProc{{Beh: "orphan0", Delay: 0}, {Beh: "orphan0", Delay: 30}, {Beh: "orphan0", Delay: 80}, {Beh: "fork", Delay: 0},
					{Beh: "exit0", Delay: 30, KillAtMs: 130, SinkMs: 700},
					{Beh: "orphanq", Delay: 0}, {Beh: "orphanq", Delay: 80}, {Beh: "exit137", Delay: 30},
					// its exit has long been reported when a Kill with a deadline that is already over comes: it succeeds
					{Beh: "exit0", Delay: 0, KillAtMs: 400, KillPast: true}}
			}
			if *fake {
				opt.Fake = func(r *rec.Recorder) supvmodel.ProcessSupervisor { return stack.NewFakeSupWithRules(r) }
			}
			evs := supv.Run(opt)
			if err := rec.WriteNDJSON(fmt.Sprintf("%s/%d.ndjson", *out, k), evs); err != nil {
				die("write: %v", err)
			}
		}
	case "diwalk":
		f, err := walkfile.Load(*in)
		if err != nil {
			die("load: %v", err)
		}
		rep := dinvoke.ReplayWalk(f, *maxDiv)
		if err := rep.Write(*out); err != nil {
			die("write: %v", err)
		}
	case "dicopy":
		b, err := os.ReadFile(*in)
		if err != nil {
			die("read: %v", err)
		}
		var cases []dinvoke.CopyCase
		if err := json.Unmarshal(b, &cases); err != nil {
			die("decode: %v", err)
		}
		rep := dinvoke.RunCopy(cases)
		ob, _ := json.MarshalIndent(rep, "", " ")
		if err := os.WriteFile(*out, ob, 0o644); err != nil {
			die("write: %v", err)
		}
	case "run":
		if *quiet {
			stack.Quiet()
		}
		if err := stack.RunFile(*in, *out, *from); err != nil {
			die("run: %v", err)
		}
	default:
		die("unknown subcommand %s", sub)
	}
}
