// Command vhfe is vh's scenario runner with the emulator's HTTP front end linked in: the files
// handlers.go and util.go of /repo/cmd/aws-lambda-rie (package main) are compiled into this package
// through a build overlay (lib/common.py build_harness), unchanged, from /repo's working tree.
package main

import (
	"flag"
	"fmt"
	"net/http"
	"os"

	"go.amzn.com/lambda/interop"
	"verifharness/stack"
)

func main() {
	if len(os.Args) < 2 || os.Args[1] != "run" {
		fmt.Fprintln(os.Stderr, "usage: vhfe run -in scenarios.json -out dir")
		os.Exit(2)
	}
	fs := flag.NewFlagSet("run", flag.ExitOnError)
	in := fs.String("in", "", "input file")
	out := fs.String("out", "", "output directory")
	from := fs.Int("from", 0, "first scenario index")
	quiet := fs.Bool("quiet", true, "silence the emulator's log")
	_ = fs.Parse(os.Args[2:])
	stack.FrontEndHandler = func(w http.ResponseWriter, r *http.Request, sb stack.FESandbox, bs interop.Bootstrap) {
		InvokeHandler(w, r, sb, bs) // cmd/aws-lambda-rie/handlers.go
	}
	stack.FrontEndReset = func() { initDone = false }
	if *quiet {
		stack.Quiet()
	}
	// the front end prints START/END/REPORT lines to stdout: part of the recorded run
	stack.CaptureStdout()
	if err := stack.RunFile(*in, *out, *from); err != nil {
		fmt.Fprintf(os.Stderr, "run: %v\n", err)
		os.Exit(2)
	}
}
