// Package sanitize concretises the abstract cases of spec/Sanitize.tla and runs the real
// sanitisation functions on them (property C20, engine E2).
package sanitize

import (
	"bytes"
	"encoding/json"
	"fmt"
	"math/rand"
	"net/http"
	"os"
	"strings"
	"time"
	"unicode/utf8"
	"verifharness/stack"

	"go.amzn.com/lambda/appctx"
	"go.amzn.com/lambda/fatalerror"
	"go.amzn.com/lambda/rapi/model"
)

type Case struct {
	C struct {
		Part   string   `json:"part"`
		S      []string `json:"s"`
		JSON   string   `json:"json"`
		Fields []string `json:"fields"`
		Size   string   `json:"size"`
		Esc    string   `json:"esc"`
		Extra  bool     `json:"extra"`
		UA     int      `json:"ua"`
		Feats  []int    `json:"feats"`
		Again  int      `json:"again"`
	} `json:"c"`
	Exp struct {
		Out  string `json:"out"`
		Take []bool `json:"take"`
		Len  int    `json:"len"`
	} `json:"exp"`
}

type Mismatch struct {
	Case  int         `json:"case"`
	Part  string      `json:"part"`
	Input interface{} `json:"input"`
	What  string      `json:"what"`
}

// every n-th cause case goes through the full stack as well
var fullStackEvery = 24

type Report struct {
	FullStack  int            `json:"fullstack_cases"`
	Cases      int            `json:"cases"`
	Concrete   int            `json:"concrete_inputs"`
	ByPart     map[string]int `json:"by_part"`
	Mismatches []Mismatch     `json:"mismatches"`
	Samples    []interface{}  `json:"samples"`
}

const upper = "ABCDEFGHIJKLMNOPQRSTUVWXYZ"
const lower = "abcdefghijklmnopqrstuvwxyz"

var others = []string{"0", "9", " ", "_", "-", "<", ">", "/", ":", "\t", "é", "ß", "漢", "\x7f", "\"", "'", "\\", "$", "(", ")", "@"}

func concretise(rnd *rand.Rand, syms []string) string {
	var b strings.Builder
	for _, s := range syms {
		switch s {
		case "R":
			b.WriteString("Runtime")
		case "F":
			b.WriteString("Function")
		case ".":
			b.WriteByte('.')
		case "U":
			b.WriteByte(upper[rnd.Intn(len(upper))])
		case "l":
			b.WriteByte(lower[rnd.Intn(len(lower))])
		case "o":
			b.WriteString(others[rnd.Intn(len(others))])
		}
	}
	return b.String()
}

func filler(rnd *rand.Rand, n int, esc string) string {
	var b strings.Builder
	for b.Len() < n {
		switch esc {
		case "quotes":
			b.WriteString(`"\"<&>`)
		case "control":
			b.WriteString("\x01\x02\n\t\x1f")
		case "multibyte":
			b.WriteString("漢字é😀")
		case "html":
			b.WriteString("<init>&<T>")
		default:
			b.WriteString("abcdefghij")
		}
	}
	s := b.String()
	return s
}

func sizeOf(class string) int {
	switch class {
	case "small":
		return 100
	case "mid":
		return 40 * 1024
	}
	return 1500 * 1024
}

// isPrefixish: the output string is the original, or a prefix of it (possibly followed by the
// truncation indicator, possibly with a final partial multi-byte character replaced).
func isPrefixish(out, orig string) bool {
	if out == orig {
		return true
	}
	o := strings.TrimSuffix(out, "...")
	o = strings.TrimRight(o, "�")
	for len(o) > 0 && !utf8.ValidString(o) {
		o = o[:len(o)-1]
	}
	return strings.HasPrefix(orig, o)
}

type exc struct {
	Message string `json:"message,omitempty"`
	Type    string `json:"type,omitempty"`
}

func buildCause(rnd *rand.Rand, c *Case) ([]byte, map[string]interface{}) {
	n := sizeOf(c.C.Size)
	doc := map[string]interface{}{}
	for _, f := range c.C.Fields {
		switch f {
		case "message":
			doc["message"] = filler(rnd, n, c.C.Esc)
		case "working_directory":
			doc["working_directory"] = filler(rnd, n, c.C.Esc)
		case "paths":
			var ps []string
			for sz := 0; sz < n; sz += 200 {
				ps = append(ps, filler(rnd, 190, c.C.Esc))
			}
			doc["paths"] = ps
		case "exceptions":
			var es []exc
			for sz := 0; sz < n; sz += 300 {
				es = append(es, exc{Message: filler(rnd, 250, c.C.Esc), Type: "T"})
			}
			doc["exceptions"] = es
		}
	}
	if c.C.Extra {
		doc["unknown_field"] = "x"
	}
	var raw []byte
	switch c.C.JSON {
	case "object":
		if c.C.Esc == "html" {
			// the runtime's encoder leaves <, > and & as they are: the document grows when the emulator re-encodes it
			var buf bytes.Buffer
			enc := json.NewEncoder(&buf)
			enc.SetEscapeHTML(false)
			_ = enc.Encode(doc)
			raw = bytes.TrimSpace(buf.Bytes())
		} else {
			raw, _ = json.Marshal(doc)
		}
	case "array":
		raw = []byte(`["message","x"]`)
	case "string":
		raw = []byte(`"message"`)
	case "trailing":
		b, _ := json.Marshal(doc)
		raw = append(b, []string{"}", " trailing garbage", "]", ",", "x"}[rnd.Intn(5)]...)
	case "concat":
		b, _ := json.Marshal(doc)
		raw = append(append(append([]byte{}, b...), []string{"", " ", "\n"}[rnd.Intn(3)]...), b...)
	default:
		b, _ := json.Marshal(doc)
		raw = append([]byte("{not json "), b...)
	}
	return raw, doc
}

func checkCause(rnd *rand.Rand, c *Case) string {
	raw, doc := buildCause(rnd, c)
	out, err := model.ValidatedErrorCauseJSON(raw)
	if c.Exp.Out == "dropped" {
		if err == nil && out != nil {
			return fmt.Sprintf("cause of class %s/%v should be dropped, got %d bytes", c.C.JSON, c.C.Fields, len(out))
		}
		return ""
	}
	if err != nil || out == nil {
		return fmt.Sprintf("cause with recognised fields %v was dropped: %v", c.C.Fields, err)
	}
	if !json.Valid(out) {
		return "output is not valid JSON"
	}
	if len(out) > model.MaxErrorCauseSizeBytes {
		return fmt.Sprintf("output has %d bytes, limit is %d", len(out), model.MaxErrorCauseSizeBytes)
	}
	var got struct {
		Exceptions []exc    `json:"exceptions"`
		WorkingDir string   `json:"working_directory"`
		Paths      []string `json:"paths"`
		Message    string   `json:"message"`
	}
	if err := json.Unmarshal(out, &got); err != nil {
		return "output does not parse: " + err.Error()
	}
	if m, ok := doc["message"].(string); ok || got.Message != "" {
		if !isPrefixish(got.Message, m) {
			return "message is not the original (shortened)"
		}
	}
	if m, ok := doc["working_directory"].(string); ok || got.WorkingDir != "" {
		if !isPrefixish(got.WorkingDir, m) {
			return "working_directory is not the original (shortened)"
		}
	}
	if ps, _ := doc["paths"].([]string); len(got.Paths) > len(ps) {
		return "more paths than in the original"
	} else {
		for i := range got.Paths {
			if got.Paths[i] != ps[i] {
				return "paths are not a prefix of the original ones"
			}
		}
	}
	if es, _ := doc["exceptions"].([]exc); len(got.Exceptions) > len(es) {
		return "more exceptions than in the original"
	} else {
		for i := range got.Exceptions {
			if got.Exceptions[i] != es[i] {
				return "exceptions are not a prefix of the original ones"
			}
		}
	}
	return ""
}

func word(rnd *rand.Rand, n int) string {
	b := make([]byte, n)
	for i := range b {
		b[i] = lower[rnd.Intn(len(lower))]
	}
	return string(b)
}

// wordAny: n bytes without a space, drawn from one of three alphabets: lower-case letters, multi-byte UTF-8, or
// arbitrary bytes above 0x7f that are not valid UTF-8 (HTTP header values may carry any of them; the budget of the
// identity string is in bytes)
func wordAny(rnd *rand.Rand, n int) string {
	switch rnd.Intn(4) {
	case 0:
		b := make([]byte, n)
		for i := range b {
			b[i] = byte(0xf8 + rnd.Intn(8)) // never valid in UTF-8
		}
		return string(b)
	case 1:
		b := make([]byte, 0, n)
		for len(b)+2 <= n {
			b = append(b, 0xc3, byte(0xa0+rnd.Intn(16))) // two-byte letters
		}
		for len(b) < n {
			b = append(b, 'x')
		}
		return string(b)
	}
	return word(rnd, n)
}

func checkRelease(rnd *rand.Rand, c *Case) string {
	ua := word(rnd, c.C.UA)
	var feats []string
	for _, l := range c.C.Feats {
		feats = append(feats, wordAny(rnd, l))
	}
	req, _ := http.NewRequest("GET", "http://x/", nil)
	if ua != "" {
		req.Header.Set("User-Agent", ua+" trailing/1.0")
	} else {
		req.Header.Set("User-Agent", "")
	}
	req.Header.Set("Lambda-Runtime-Features", strings.Join(feats, " "))
	ctx := appctx.NewApplicationContext()
	appctx.UpdateAppCtxWithRuntimeRelease(req, ctx)
	got := appctx.GetRuntimeRelease(ctx)
	var taken []string
	for i, t := range c.Exp.Take {
		if t {
			taken = append(taken, feats[i])
		}
	}
	want := ua
	if len(taken) > 0 {
		if ua == "" {
			want = "Unknown"
		}
		want += " (" + strings.Join(taken, " ") + ")"
	}
	if got != want {
		return fmt.Sprintf("identity string %q (len %d), specification says %q (len %d)", short(got), len(got), short(want), len(want))
	}
	if len(taken) > 0 && len(got) > 128 {
		return fmt.Sprintf("identity string grew to %d bytes through features", len(got))
	}
	// a later request with other features must not change a string that already carries features
	req2, _ := http.NewRequest("GET", "http://x/", nil)
	req2.Header.Set("User-Agent", "other-agent")
	req2.Header.Set("Lambda-Runtime-Features", word(rnd, c.C.Again))
	appctx.UpdateAppCtxWithRuntimeRelease(req2, ctx)
	got2 := appctx.GetRuntimeRelease(ctx)
	if len(taken) > 0 && got2 != got {
		return fmt.Sprintf("identity string changed after features were appended: %q -> %q", short(got), short(got2))
	}
	if len(got2) > 128 && len(got2) > len(got) {
		return fmt.Sprintf("identity string grew to %d bytes through features of a later request", len(got2))
	}
	return ""
}

const causeHeader = "Lambda-Runtime-Function-XRay-Error-Cause"

func lastTraceCause(s *stack.Stack) (string, int, int) {
	class, size, n := "", 0, 0
	for _, e := range s.Rec.Events() {
		if e["ev"] == "TraceCause" {
			class, _ = e["class"].(string)
			size, _ = e["size"].(int)
			n++
		}
	}
	return class, size, n
}

func awaitProc(s *stack.Stack, kind string, after *stack.Proc) *stack.Proc {
	deadline := time.Now().Add(5 * time.Second)
	for time.Now().Before(deadline) {
		if p := s.Sup.Latest(kind, ""); p != nil && p != after && p.Alive() {
			return p
		}
		time.Sleep(200 * time.Microsecond)
	}
	return nil
}

// checkCauseHandlers runs a cause document through the entry points of the real emulator (full stack, Runtime API over
// HTTP) and compares what ends up as the error cause of the invocation's trace segment (recording tracer) with the
// specification: through /runtime/invocation/{id}/error the document is dropped or passed on bounded exactly as
// Sanitize!CauseOut says; an init error (reported while an invocation is waiting for the initialisation) passes no
// cause on at all.
func checkCauseHandlers(rnd *rand.Rand, c *Case, via string) string {
	raw, _ := buildCause(rnd, c)
	if len(raw) > 200*1024 || bytes.ContainsAny(raw, "\r\n") {
		return ""
	}
	s, err := stack.New(stack.Options{TimeoutMs: 1500})
	if err != nil {
		return "driver: " + err.Error()
	}
	defer s.Close()
	defer s.AbortClients()
	s.Init()
	p := awaitProc(s, "rt", nil)
	if p == nil {
		return "driver: runtime not started"
	}
	hdr := map[string]string{causeHeader: string(raw)}
	want := "none"
	if via == "invocation-error" {
		if c.Exp.Out != "dropped" {
			want = "bounded"
		}
		next := make(chan stack.CallResult, 1)
		go func() { next <- s.RtNext(p, "rt") }()
		inv := make(chan stack.InvokeResult, 1)
		go func() { inv <- s.Invoke(1, []byte("x"), "", "", "") }()
		select {
		case <-next:
		case <-time.After(5 * time.Second):
			return "driver: event not delivered"
		}
		s.RtError(p, "rt", "current", "Function.Failed", []byte(`{"errorMessage":"boom"}`), hdr)
		go s.RtNext(p, "rt")
		select {
		case <-inv:
		case <-time.After(5 * time.Second):
			return "driver: invocation not answered"
		}
	} else {
		// the first runtime dies during init; the first invocation fails and resets; the second invocation brings the
		// environment up itself and the new runtime reports an init error with a cause header
		s.Sup.Exit(p, 1)
		s.Invoke(1, []byte("x"), "", "", "")
		inv := make(chan stack.InvokeResult, 1)
		go func() { inv <- s.Invoke(1, []byte("y"), "", "", "") }()
		p2 := awaitProc(s, "rt", p)
		if p2 == nil {
			return "driver: second runtime not started"
		}
		s.RtInitErrorH(p2, "rt", "Runtime.InitFailed", []byte(`{"errorMessage":"init"}`), hdr)
		s.Sup.Exit(p2, 1)
		select {
		case <-inv:
		case <-time.After(6 * time.Second):
			return "driver: invocation not answered"
		}
	}
	class, size, n := lastTraceCause(s)
	if n == 0 {
		return "driver: no trace segment recorded"
	}
	if class != want {
		return fmt.Sprintf("cause of class %s/%v sent through %s: the trace segment gets %q (%d bytes), specification says %q",
			c.C.JSON, c.C.Fields, via, class, size, want)
	}
	return ""
}

func short(s string) string {
	if len(s) > 60 {
		return s[:28] + "…" + s[len(s)-28:]
	}
	return s
}

func Run(cases []Case, seed int64, reps int) *Report {
	rnd := rand.New(rand.NewSource(seed))
	rep := &Report{ByPart: map[string]int{}}
	for i := range cases {
		c := &cases[i]
		rep.Cases++
		rep.ByPart[c.C.Part]++
		n := reps
		if c.C.Part == "cause" && c.C.Size == "huge" {
			n = 1
		}
		for r := 0; r < n; r++ {
			what := ""
			var input interface{}
			switch c.C.Part {
			case "etype":
				s := concretise(rnd, c.C.S)
				input = s
				got := string(fatalerror.GetValidRuntimeOrFunctionErrorType(s))
				want := c.Exp.Out
				if want == "same" {
					want = s
				}
				if got != want {
					what = fmt.Sprintf("error type %q is passed on as %q, specification says %q", s, got, want)
				}
			case "cause":
				input = c.C
				what = checkCause(rnd, c)
				// a sample of the cases also through the handlers of the full stack (small and medium documents)
				if what == "" && r == 0 && c.C.Size != "huge" && i%fullStackEvery == 0 {
					via := []string{"invocation-error", "init-error"}[(i/fullStackEvery)%2]
					what = checkCauseHandlers(rnd, c, via)
					rep.FullStack++
				}
			case "release":
				input = c.C
				what = checkRelease(rnd, c)
			}
			rep.Concrete++
			if what != "" && len(rep.Mismatches) < 12 {
				rep.Mismatches = append(rep.Mismatches, Mismatch{Case: i, Part: c.C.Part, Input: input, What: what})
			}
			if len(rep.Samples) < 4 && i%997 == 3 {
				rep.Samples = append(rep.Samples, map[string]interface{}{"case": c.C, "expected": c.Exp, "input": input})
			}
		}
	}
	return rep
}

func Load(path string) ([]Case, error) {
	b, err := os.ReadFile(path)
	if err != nil {
		return nil, err
	}
	var cs []Case
	err = json.Unmarshal(b, &cs)
	return cs, err
}
