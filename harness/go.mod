module verifharness

go 1.22

require (
	github.com/go-chi/chi v1.5.5
	github.com/google/uuid v1.6.0
	github.com/sirupsen/logrus v1.9.3
	go.amzn.com v0.0.0
)

require golang.org/x/sys v0.14.0 // indirect

replace go.amzn.com => /repo
