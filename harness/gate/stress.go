package gate

import (
	"math/rand"
	"sync"
	"time"

	"go.amzn.com/lambda/core"
	"verifharness/gstate"
)

// ReturnObs is the state in which an AwaitGateCondition call decided to return, taken under the gate's lock
// (core.VerifGateHook, build tag verif), together with the episode it belongs to.
type ReturnObs struct {
	E        string `json:"e"`
	Episode  int    `json:"episode"`
	Op       string `json:"op"`
	Arrived  int    `json:"arrived"`
	Count    int    `json:"count"`
	Canceled bool   `json:"canceled"`
}

// Stress drives the window that the quiescent graph walk cannot see: waiters parked on a gate are woken by the last
// arrival, and before they have re-acquired the lock another operation (re-arm, a larger count, clear) makes the
// condition false again - issued back to back by the goroutine that made the arrival, so that it usually wins the
// race for the lock.  Each episode ends by making the condition true for good (arrivals or a cancel), so every
// waiter returns.  What is recorded is the state at every return (the linearization point of the waiter's decision):
// the specification allows a return only in a state in which the condition holds (Gate!ReturnIsJustified).
func Stress(seed int64, episodes int) []ReturnObs {
	rnd := rand.New(rand.NewSource(seed))
	var mu sync.Mutex
	var out []ReturnObs
	cur := 0
	curOp := ""
	core.VerifGateHook = func(arrived, count uint16, canceled bool) {
		mu.Lock()
		out = append(out, ReturnObs{E: "AwaitReturn", Episode: cur, Op: curOp, Arrived: int(arrived), Count: int(count), Canceled: canceled})
		mu.Unlock()
	}
	defer func() { core.VerifGateHook = nil }()
	ops := []string{"reset", "setcount-up", "clear", "reset-twice"}
	for ep := 0; ep < episodes; ep++ {
		n := 1 + rnd.Intn(3) // expected arrivals
		nw := 1 + rnd.Intn(3)
		op := ops[rnd.Intn(len(ops))]
		mu.Lock()
		cur, curOp = ep, op
		mu.Unlock()
		g := core.NewGate(uint16(n))
		var wg sync.WaitGroup
		ids := make([]int64, nw)
		started := make(chan int, nw)
		for i := 0; i < nw; i++ {
			wg.Add(1)
			go func(i int) {
				defer wg.Done()
				ids[i] = gstate.ID()
				started <- i
				_ = g.AwaitGateCondition()
			}(i)
		}
		for i := 0; i < nw; i++ {
			<-started
		}
		// all waiters parked
		deadline := time.Now().Add(5 * time.Second)
		for {
			snap := gstate.Snapshot()
			parked := 0
			for _, id := range ids {
				if snap[id] == "sync.Cond.Wait" {
					parked++
				}
			}
			if parked == nw || time.Now().After(deadline) {
				break
			}
			time.Sleep(50 * time.Microsecond)
		}
		for i := 0; i < n-1; i++ {
			_ = g.WalkThrough()
		}
		// the last arrival wakes everybody; the next operation follows at once
		_ = g.WalkThrough()
		switch op {
		case "reset":
			g.Reset()
		case "reset-twice":
			g.Reset()
			g.Reset()
		case "setcount-up":
			_ = g.SetCount(uint16(n + 1))
		case "clear":
			g.Clear()
		}
		time.Sleep(time.Duration(rnd.Intn(300)) * time.Microsecond)
		// end of the episode: make the condition true for good
		if rnd.Intn(3) == 0 {
			g.CancelWithError(nil)
		} else {
			for i := 0; i < n+1; i++ {
				if g.WalkThrough() != nil {
					break
				}
			}
			g.CancelWithError(nil) // whoever is still parked (count not reachable) is released by the cancel
		}
		wg.Wait()
	}
	mu.Lock()
	defer mu.Unlock()
	return append([]ReturnObs{}, out...)
}
