package gate

import (
	"math/rand"
	"runtime"
	"time"

	"go.amzn.com/lambda/core"
	"verifharness/gstate"
)

// FlowEv is one event of a flow program (spec/Trace_Flow.tla).
type FlowEv struct {
	E    string `json:"e"`
	Kind string `json:"kind"`
	Op   string `json:"op"`
	Gate string `json:"gate"`
	N    int    `json:"n"`
	Err  string `json:"err"`
	Res  string `json:"res"`
	W    int    `json:"w"`
	Out  string `json:"out"`
}

type flowObj struct {
	kind  string
	inv   core.InvokeFlowSynchronization
	ini   core.InitFlowSynchronization
	gates []string
}

func newFlow(kind string) *flowObj {
	if kind == "invoke" {
		return &flowObj{kind: kind, inv: core.NewInvokeFlowSynchronization(), gates: []string{"rtReady", "rtResp", "agReady"}}
	}
	return &flowObj{kind: kind, ini: core.NewInitFlowSynchronization(), gates: []string{"rtReady", "extReg", "agReady", "rtRestore"}}
}

func (f *flowObj) walk(gate string) error {
	if f.kind == "invoke" {
		switch gate {
		case "rtReady":
			return f.inv.RuntimeReady(nil)
		case "rtResp":
			return f.inv.RuntimeResponse(nil)
		}
		return f.inv.AgentReady()
	}
	switch gate {
	case "rtReady":
		return f.ini.RuntimeReady()
	case "extReg":
		return f.ini.ExternalAgentRegistered()
	case "rtRestore":
		return f.ini.RuntimeRestoreReady()
	}
	return f.ini.AgentReady()
}

func (f *flowObj) await(gate string) error {
	if f.kind == "invoke" {
		switch gate {
		case "rtReady":
			return f.inv.AwaitRuntimeReady()
		case "rtResp":
			return f.inv.AwaitRuntimeResponse()
		}
		return f.inv.AwaitAgentsReady()
	}
	switch gate {
	case "rtReady":
		return f.ini.AwaitRuntimeReady()
	case "extReg":
		return f.ini.AwaitExternalAgentsRegistered()
	case "rtRestore":
		return f.ini.AwaitRuntimeRestoreReady()
	}
	return f.ini.AwaitAgentsReady()
}

func (f *flowObj) setCount(gate string, n int) (error, bool) {
	if f.kind == "invoke" {
		if gate != "agReady" {
			return nil, false
		}
		return f.inv.SetAgentsReadyCount(uint16(n)), true
	}
	switch gate {
	case "agReady":
		return f.ini.SetAgentsReadyCount(uint16(n)), true
	case "extReg":
		return f.ini.SetExternalAgentsRegisterCount(uint16(n)), true
	}
	return nil, false
}

type flowWaiter struct {
	w    int
	gate string
	id   int64
	done chan error
}

// FlowProgram runs random programs over the method set of the two flow objects and returns the recorded events.
// Whether a waiter is parked is read off the goroutine's wait state (sync.Cond.Wait), not off a time-out.
func FlowProgram(seed int64, programs, length int) []FlowEv {
	rnd := rand.New(rand.NewSource(seed))
	var out []FlowEv
	emit := func(e FlowEv) { out = append(out, e) }
	for p := 0; p < programs; p++ {
		kind := []string{"invoke", "init"}[p%2]
		f := newFlow(kind)
		emit(FlowEv{E: "New", Kind: kind})
		nextW := 0
		var parked []*flowWaiter
		// settle: every parked waiter has either returned or is parked again; returns are recorded as they are found
		settle := func() {
			deadline := time.Now().Add(10 * time.Second)
			for {
				var still []*flowWaiter
				pending := false
				var snap map[int64]string
				for _, w := range parked {
					select {
					case err := <-w.done:
						emit(FlowEv{E: "AwaitReturn", W: w.w, Gate: w.gate, Res: errName(err)})
						continue
					default:
					}
					if snap == nil {
						snap = gstate.Snapshot()
					}
					if snap[w.id] != "sync.Cond.Wait" {
						pending = true
					}
					still = append(still, w)
				}
				parked = still
				if !pending || time.Now().After(deadline) {
					emit(FlowEv{E: "Settled"})
					return
				}
				runtime.Gosched()
			}
		}
		for i := 0; i < length; i++ {
			gate := f.gates[rnd.Intn(len(f.gates))]
			switch x := rnd.Intn(100); {
			case x < 34:
				emit(FlowEv{E: "Op", Op: "walk", Gate: gate, Res: errName(f.walk(gate))})
			case x < 46:
				n := rnd.Intn(4)
				if err, ok := f.setCount(gate, n); ok {
					emit(FlowEv{E: "Op", Op: "setcount", Gate: gate, N: n, Res: errName(err)})
				}
			case x < 56:
				if kind == "invoke" {
					_ = f.inv.InitializeBarriers()
					emit(FlowEv{E: "All", Op: "initbarriers", Err: "nil"})
				}
			case x < 66:
				en := []string{"nil", "e1", "e2"}[rnd.Intn(3)]
				var e error
				if en != "nil" {
					e = namedErrs[en]
				}
				if kind == "invoke" {
					f.inv.CancelWithError(e)
				} else {
					f.ini.CancelWithError(e)
				}
				emit(FlowEv{E: "All", Op: "cancel", Err: en})
			case x < 76:
				if kind == "invoke" {
					f.inv.Clear()
				} else {
					f.ini.Clear()
				}
				emit(FlowEv{E: "All", Op: "clear", Err: "nil"})
			default:
				if len(parked) >= 6 {
					continue
				}
				nextW++
				w := &flowWaiter{w: nextW, gate: gate, done: make(chan error, 1)}
				ready := make(chan struct{})
				go func() {
					w.id = gstate.ID()
					close(ready)
					w.done <- f.await(gate)
				}()
				<-ready
				for {
					select {
					case err := <-w.done:
						emit(FlowEv{E: "Await", W: w.w, Gate: gate, Out: errName(err)})
						w = nil
					default:
					}
					if w == nil {
						break
					}
					if gstate.Snapshot()[w.id] == "sync.Cond.Wait" {
						select {
						case err := <-w.done: // finished between the two looks
							emit(FlowEv{E: "Await", W: w.w, Gate: gate, Out: errName(err)})
						default:
							emit(FlowEv{E: "Await", W: w.w, Gate: gate, Out: "parked"})
							parked = append(parked, w)
						}
						break
					}
					runtime.Gosched()
				}
			}
			settle()
		}
		// end of the program: release everybody
		if kind == "invoke" {
			f.inv.CancelWithError(nil)
		} else {
			f.ini.CancelWithError(nil)
		}
		emit(FlowEv{E: "All", Op: "cancel", Err: "nil"})
		settle()
	}
	return out
}
