// Package gate replays walks of the GateQ state graph on real core.NewGate
// objects (property C11, engine E2).
package gate

import (
	"encoding/json"
	"errors"
	"fmt"
	"runtime"
	"sync"
	"time"

	"go.amzn.com/lambda/core"
	"verifharness/gstate"
	"verifharness/walkfile"
)

type node struct {
	G struct {
		Count    int    `json:"count"`
		Arrived  int    `json:"arrived"`
		Canceled bool   `json:"canceled"`
		Err      string `json:"err"`
	} `json:"g"`
	Wst  []string `json:"wst"`
	Wres []string `json:"wres"`
	Last string   `json:"last"`
}

var namedErrs = map[string]error{"e1": errors.New("e1"), "e2": errors.New("e2"), "e3": errors.New("e3")}

func errName(err error) string {
	switch {
	case err == nil:
		return "ok"
	case err == core.ErrGateCanceled:
		return "ErrGateCanceled"
	case err == core.ErrGateIntegrity:
		return "ErrGateIntegrity"
	}
	for n, e := range namedErrs {
		if e == err {
			return n
		}
	}
	return "other:" + err.Error()
}

// waiter is one goroutine that calls AwaitGateCondition on demand.
type waiter struct {
	mu      sync.Mutex
	goid    int64
	cmd     chan core.Gate
	state   string // idle | called | done
	res     string
	stopped chan struct{}
}

func newWaiter() *waiter {
	w := &waiter{cmd: make(chan core.Gate), state: "idle", res: "none", stopped: make(chan struct{})}
	ready := make(chan struct{})
	go func() {
		w.goid = gstate.ID()
		close(ready)
		defer close(w.stopped)
		for g := range w.cmd {
			err := g.AwaitGateCondition()
			w.mu.Lock()
			w.state = "done"
			w.res = errName(err)
			w.mu.Unlock()
		}
	}()
	<-ready
	return w
}

func (w *waiter) get() (string, string) {
	w.mu.Lock()
	defer w.mu.Unlock()
	return w.state, w.res
}

// Observed is the projection of the real objects onto the spec's waiter variables.
type Observed struct {
	Wst  []string `json:"wst"`
	Wres []string `json:"wres"`
	Last string   `json:"last"`
}

// settle waits until every waiter with an outstanding call is either parked in
// sync.Cond.Wait or has returned.  The bound only guards against a dead harness.
func settle(ws []*waiter) (Observed, error) {
	deadline := time.Now().Add(10 * time.Second)
	for {
		obs := Observed{Wst: make([]string, len(ws)), Wres: make([]string, len(ws))}
		var snap map[int64]string
		pending := false
		for i, w := range ws {
			st, res := w.get()
			switch st {
			case "idle":
				obs.Wst[i], obs.Wres[i] = "idle", "none"
			case "done":
				obs.Wst[i], obs.Wres[i] = "done", res
			case "called":
				if snap == nil {
					snap = gstate.Snapshot()
				}
				if snap[w.goid] == "sync.Cond.Wait" {
					// re-read: it may have finished between get() and the snapshot
					st2, res2 := w.get()
					if st2 == "done" {
						obs.Wst[i], obs.Wres[i] = "done", res2
					} else {
						obs.Wst[i], obs.Wres[i] = "parked", "none"
					}
				} else {
					pending = true
				}
			}
		}
		if !pending {
			return obs, nil
		}
		if time.Now().After(deadline) {
			return obs, fmt.Errorf("waiters did not settle: %v", snap)
		}
		runtime.Gosched()
	}
}

func sameObs(n *node, o Observed, nw int) string {
	for i := 0; i < nw; i++ {
		if n.Wst[i] != o.Wst[i] {
			return fmt.Sprintf("waiter %d is %s, specification says %s", i+1, o.Wst[i], n.Wst[i])
		}
		if n.Wres[i] != o.Wres[i] {
			return fmt.Sprintf("waiter %d returned %s, specification says %s", i+1, o.Wres[i], n.Wres[i])
		}
	}
	if n.Last != o.Last {
		return fmt.Sprintf("operation returned %s, specification says %s", o.Last, n.Last)
	}
	return ""
}

// ReplayWalk executes every path of the walk file on fresh gates.
func ReplayWalk(f *walkfile.File, maxDiv int) *walkfile.Report {
	rep := &walkfile.Report{Actions: map[string]int{}, EdgesTotal: len(f.Edges)}
	nodes := make([]node, len(f.Nodes))
	for i, raw := range f.Nodes {
		if err := json.Unmarshal(raw, &nodes[i]); err != nil {
			rep.Error = fmt.Sprintf("node %d: %v", i, err)
			return rep
		}
	}
	covered := make([]bool, len(f.Edges))
	for pi, p := range f.Paths {
		if len(rep.Divergences) >= maxDiv {
			break
		}
		rep.Paths++
		n0 := &nodes[p.Init]
		nw := len(n0.Wst)
		g := core.NewGate(uint16(n0.G.Count))
		ws := make([]*waiter, nw)
		for i := range ws {
			ws[i] = newWaiter()
		}
		var prefix []string
		for si, ei := range p.Edges {
			e := f.Edges[ei]
			last := "void"
			switch e.Name {
			case "QRegister":
				g.Register(uint16(e.Int(0)))
			case "QSetCount":
				last = errName(g.SetCount(uint16(e.Int(0))))
			case "QReset":
				g.Reset()
			case "QWalkThrough":
				last = errName(g.WalkThrough())
			case "QCancel":
				if name := e.Str(0); name == "nil" {
					g.CancelWithError(nil)
				} else {
					g.CancelWithError(namedErrs[name])
				}
			case "QClear":
				g.Clear()
			case "QAwait":
				w := ws[e.Int(0)-1]
				w.mu.Lock()
				w.state, w.res = "called", "none"
				w.mu.Unlock()
				w.cmd <- g
				last = nodes[e.Src].Last // waiter steps leave "last" unchanged in the spec
			case "QAgain":
				w := ws[e.Int(0)-1]
				w.mu.Lock()
				w.state, w.res = "idle", "none"
				w.mu.Unlock()
			default:
				rep.Error = "unknown action " + e.Name
				return rep
			}
			obs, err := settle(ws)
			obs.Last = last
			rep.Steps++
			rep.Actions[e.Name]++
			prefix = append(prefix, e.Label())
			what := ""
			if err != nil {
				what = err.Error()
			} else {
				what = sameObs(&nodes[e.Dst], obs, nw)
			}
			if what != "" {
				pf := prefix
				if len(pf) > 60 {
					pf = pf[len(pf)-60:]
				}
				rep.Divergences = append(rep.Divergences, walkfile.Divergence{
					Path: pi, Step: si, Prefix: append([]string{}, pf...), Action: e.Label(),
					Expected: f.Nodes[e.Dst], Observed: obs, What: what, Init: f.Nodes[p.Init],
				})
				break
			}
			covered[ei] = true
			if len(rep.Samples) < 3 && si == len(p.Edges)-1 {
				s := prefix
				if len(s) > 25 {
					s = s[:25]
				}
				rep.Samples = append(rep.Samples, map[string]interface{}{"init": f.Nodes[p.Init], "actions": s, "final": obs})
			}
		}
		// release the goroutines of this path: cancel wakes every parked waiter
		g.CancelWithError(nil)
		for _, w := range ws {
			close(w.cmd)
		}
		for _, w := range ws {
			<-w.stopped
		}
	}
	for _, c := range covered {
		if c {
			rep.EdgesCovered++
		}
	}
	return rep
}
