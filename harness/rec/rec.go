// Package rec records the observable events of a scenario run as ndjson
// (engine E3).  Every event gets a sequence number from one counter taken under
// the recorder's mutex, and a millisecond stamp relative to the recorder's start.
package rec

import (
	"bufio"
	"encoding/json"
	"os"
	"sync"
	"time"
)

type Event map[string]interface{}

type Recorder struct {
	mu     sync.Mutex
	seq    int
	start  time.Time
	events []Event
	stream *os.File // every event is also appended here at once, so that a crash of the process leaves its trace
	closed bool
}

// StreamTo makes the recorder append every event to path as it is emitted.
func (r *Recorder) StreamTo(path string) error {
	f, err := os.Create(path)
	if err != nil {
		return err
	}
	r.mu.Lock()
	r.stream = f
	r.mu.Unlock()
	return nil
}

// CloseStream stops streaming (events emitted later are kept in memory only).
func (r *Recorder) CloseStream() {
	r.mu.Lock()
	defer r.mu.Unlock()
	if r.stream != nil {
		r.stream.Close()
		r.stream = nil
	}
}

func New() *Recorder { return &Recorder{start: time.Now()} }

// Emit appends an event; kv are alternating keys and values.
func (r *Recorder) Emit(actor, ev string, kv ...interface{}) int {
	e := Event{"actor": actor, "ev": ev}
	for i := 0; i+1 < len(kv); i += 2 {
		e[kv[i].(string)] = kv[i+1]
	}
	r.mu.Lock()
	defer r.mu.Unlock()
	r.seq++
	e["seq"] = r.seq
	e["t"] = time.Since(r.start).Milliseconds()
	r.events = append(r.events, e)
	if r.stream != nil {
		if b, err := json.Marshal(e); err == nil {
			r.stream.Write(append(b, '\n'))
		}
	}
	return r.seq
}

func (r *Recorder) NowMs() int64 { return time.Since(r.start).Milliseconds() }

func (r *Recorder) Events() []Event {
	r.mu.Lock()
	defer r.mu.Unlock()
	return append([]Event{}, r.events...)
}

func (r *Recorder) Len() int {
	r.mu.Lock()
	defer r.mu.Unlock()
	return len(r.events)
}

// Count returns the number of events matching actor/ev ("" = any).
func (r *Recorder) Count(actor, ev string) int {
	r.mu.Lock()
	defer r.mu.Unlock()
	n := 0
	for _, e := range r.events {
		if (actor == "" || e["actor"] == actor) && (ev == "" || e["ev"] == ev) {
			n++
		}
	}
	return n
}

func WriteNDJSON(path string, evs []Event) error {
	f, err := os.Create(path)
	if err != nil {
		return err
	}
	w := bufio.NewWriter(f)
	for _, e := range evs {
		b, err := json.Marshal(e)
		if err != nil {
			f.Close()
			return err
		}
		w.Write(b)
		w.WriteByte('\n')
	}
	if err := w.Flush(); err != nil {
		f.Close()
		return err
	}
	return f.Close()
}
