// Package envcheck replays the cases enumerated by TLC from spec/Env.tla on the real
// env.Environment API and on the full stack (property C16, engine E2).
package envcheck

import (
	"encoding/json"
	"fmt"
	"net"
	"os"
	"sort"
	"strings"
	"time"

	"go.amzn.com/lambda/rapidcore/env"
	"verifharness/stack"
)

// abstract key class -> concrete variable names
var names = map[string][]string{
	"CUST":     {"MY_SETTING"},
	"CUST2":    {"another.setting-2"},
	"XRAYADDR": {"AWS_XRAY_DAEMON_ADDRESS"},
	"AKID":     {"AWS_ACCESS_KEY_ID", "AWS_SECRET_ACCESS_KEY", "AWS_SESSION_TOKEN"},
	"HANDLER":  {"_HANDLER"},
	"TASKROOT": {"LAMBDA_TASK_ROOT"},
	"FNNAME":   {"AWS_LAMBDA_FUNCTION_NAME"},
	"FNVER":    {"AWS_LAMBDA_FUNCTION_VERSION"},
	"TZ":       {"TZ"},
	"API":      {"AWS_LAMBDA_RUNTIME_API"},
	"PRIV":     {"_MY_PRIVATE"},
	"XCM":      {"AWS_XRAY_CONTEXT_MISSING"},
	"CREDURI":  {"AWS_CONTAINER_CREDENTIALS_FULL_URI"},
	"CREDTOK":  {"AWS_CONTAINER_AUTHORIZATION_TOKEN"},
}

const (
	host  = "127.0.0.1"
	port  = 9555
	token = "tok-123"
)

// emptyTok: the init request carries an empty session token (long-term credentials); the variable is still part of
// the credentials layer (present, empty) and still shadows a customer variable of that name
var emptyTok bool

// val gives every (layer, variable) pair its own concrete value, with awkward characters.
func val(layer, name string) string {
	switch {
	case layer == "cred" && name == "AWS_SESSION_TOKEN" && emptyTok:
		return ""
	case layer == "cred" && name == "AWS_CONTAINER_CREDENTIALS_FULL_URI":
		return fmt.Sprintf("http://%s:%d/2021-04-23/credentials", host, port)
	case layer == "cred" && name == "AWS_CONTAINER_AUTHORIZATION_TOKEN":
		return token
	case layer == "cust" && name == "another.setting-2":
		return "" // empty customer value
	case layer == "cust":
		return "cust:" + name + "=a=b\nsecond line"
	}
	return layer + ":" + name
}

type Case struct {
	Cfg struct {
		Cust        []string `json:"cust"`
		Proc        []string `json:"proc"`
		Caching     bool     `json:"caching"`
		Override    bool     `json:"override"`
		InitHandler bool     `json:"initHandler"`
		InitNames   bool     `json:"initNames"`
		EmptyTok    bool     `json:"emptytok"`
	} `json:"cfg"`
	Out struct {
		Rt map[string][]string `json:"rt"`
		Ag map[string][]string `json:"ag"`
	} `json:"out"`
}

type Mismatch struct {
	Case   int               `json:"case"`
	Cfg    interface{}       `json:"cfg"`
	Which  string            `json:"which"`
	What   string            `json:"what"`
	Got    map[string]string `json:"got,omitempty"`
	Expect map[string]string `json:"expected,omitempty"`
}

type Report struct {
	Cases       int           `json:"cases"`
	Comparisons int           `json:"comparisons"`
	FullStack   int           `json:"fullstack_cases"`
	Mismatches  []Mismatch    `json:"mismatches"`
	Samples     []interface{} `json:"samples"`
	Error       string        `json:"error,omitempty"`
}

func concrete(abs map[string][]string) map[string]string {
	res := map[string]string{}
	for k, src := range abs {
		for _, n := range names[k] {
			res[n] = val(src[0], n)
		}
	}
	return res
}

func diff(got, want map[string]string) string {
	var d []string
	for k, v := range want {
		g, ok := got[k]
		if !ok {
			d = append(d, fmt.Sprintf("missing %s", k))
		} else if g != v {
			d = append(d, fmt.Sprintf("%s=%q want %q", k, g, v))
		}
	}
	for k := range got {
		if _, ok := want[k]; !ok {
			d = append(d, fmt.Sprintf("unexpected %s", k))
		}
	}
	sort.Strings(d)
	return strings.Join(d, "; ")
}

func allNames() []string {
	var r []string
	for _, ns := range names {
		r = append(r, ns...)
	}
	return r
}

// RunAPI executes every case through NewEnvironment / SetHandler / StoreRuntimeAPIEnvironmentVariable /
// StoreEnvironmentVariablesFromInit[ForInitCaching] / RuntimeExecEnv / AgentExecEnv.
func RunAPI(cases []Case, rep *Report) {
	for i, c := range cases {
		emptyTok = c.Cfg.EmptyTok
		for _, n := range allNames() {
			os.Unsetenv(n)
		}
		for _, k := range c.Cfg.Proc {
			for _, n := range names[k] {
				os.Setenv(n, val("proc", n))
			}
		}
		e := env.NewEnvironment()
		if c.Cfg.Override {
			e.SetHandler(val("override", "_HANDLER"))
		}
		e.StoreRuntimeAPIEnvironmentVariable(val("emulator", "AWS_LAMBDA_RUNTIME_API"))
		cust := map[string]string{}
		for _, k := range c.Cfg.Cust {
			for _, n := range names[k] {
				cust[n] = val("cust", n)
			}
		}
		handler, fn, ver := "", "", ""
		if c.Cfg.InitHandler {
			handler = val("init", "_HANDLER")
		}
		if c.Cfg.InitNames {
			fn, ver = val("init", "AWS_LAMBDA_FUNCTION_NAME"), val("init", "AWS_LAMBDA_FUNCTION_VERSION")
		}
		if c.Cfg.Caching {
			e.StoreEnvironmentVariablesFromInitForInitCaching(host, port, cust, handler, fn, ver, token)
		} else {
			e.StoreEnvironmentVariablesFromInit(cust, handler, val("cred", "AWS_ACCESS_KEY_ID"), val("cred", "AWS_SECRET_ACCESS_KEY"),
				val("cred", "AWS_SESSION_TOKEN"), fn, ver)
		}
		rt, ag := e.RuntimeExecEnv(), e.AgentExecEnv()
		rep.Cases++
		for which, pair := range map[string][2]map[string]string{"runtime": {rt, concrete(c.Out.Rt)}, "extension": {ag, concrete(c.Out.Ag)}} {
			rep.Comparisons++
			if d := diff(pair[0], pair[1]); d != "" && len(rep.Mismatches) < 8 {
				rep.Mismatches = append(rep.Mismatches, Mismatch{Case: i, Cfg: c.Cfg, Which: which, What: d, Got: pair[0], Expect: pair[1]})
			}
		}
		if len(rep.Samples) < 2 && len(c.Cfg.Cust) > 3 {
			rep.Samples = append(rep.Samples, map[string]interface{}{"cfg": c.Cfg, "runtime_env": rt, "extension_env": ag})
		}
	}
	for _, n := range allNames() {
		os.Unsetenv(n)
	}
	emptyTok = false
}

// RunFullStack checks the environments the supervisor is asked to start processes with, for the
// configuration the front end produces (plain credentials, handler and names from init, no override),
// and that the advertised Runtime API address is the one the server listens on.
func RunFullStack(cases []Case, rep *Report) {
	for _, n := range allNames() {
		os.Unsetenv(n)
	}
	done := 0
	doneCaching := 0
	for i, c := range cases {
		if c.Cfg.Override || !c.Cfg.InitHandler || !c.Cfg.InitNames || len(c.Cfg.Proc) != 0 || c.Cfg.EmptyTok {
			continue
		}
		// plain credentials: 12 cases; snapshot (init caching) mode, where the credentials are served by the endpoint and
		// customer variables with the credential names arrive unchanged: 12 cases, through rapid's own init path
		if c.Cfg.Caching {
			// (half of them with customer variables named like the credentials)
			hasAkid := false
			for _, k := range c.Cfg.Cust {
				hasAkid = hasAkid || k == "AKID"
			}
			if doneCaching >= 12 || (doneCaching%2 == 0 && !hasAkid) {
				continue
			}
			doneCaching++
		} else {
			if done >= 12 {
				continue
			}
			done++
		}
		cust := map[string]string{}
		for _, k := range c.Cfg.Cust {
			for _, n := range names[k] {
				cust[n] = val("cust", n)
			}
		}
		// one case lets the operating system choose the port ("--runtime-api-address host:0")
		port0 := !c.Cfg.Caching && done == 3
		s, err := stack.New(stack.Options{Ext: []stack.ExtFile{{Name: "e1", Kind: "file"}}, TimeoutMs: 500, CustomerEnv: cust, FullEnv: true,
			Port0: port0, InitCaching: c.Cfg.Caching})
		if err != nil {
			rep.Error = err.Error()
			return
		}
		s.Init()
		deadline := time.Now().Add(5 * time.Second)
		var extEnv, rtEnv map[string]string
		for time.Now().Before(deadline) && (extEnv == nil || rtEnv == nil) {
			if p := s.Sup.Latest("ext", "e1"); p != nil && extEnv == nil {
				extEnv = p.Env
				r := s.ExtRegister(p, "ext:e1", "e1", []string{"INVOKE"}, "", "")
				if r.Status != 200 {
					rep.Mismatches = append(rep.Mismatches, Mismatch{Case: i, Cfg: c.Cfg, Which: "fullstack", What: fmt.Sprintf("register over the advertised address failed: %d %s", r.Status, r.NetErr)})
				}
			}
			if p := s.Sup.Latest("rt", ""); p != nil {
				rtEnv = p.Env
			}
			time.Sleep(time.Millisecond)
		}
		rep.FullStack++
		if extEnv == nil || rtEnv == nil {
			rep.Mismatches = append(rep.Mismatches, Mismatch{Case: i, Cfg: c.Cfg, Which: "fullstack", What: "processes were not started"})
			s.AbortClients()
			s.Close()
			continue
		}
		// the stack's Init uses its own handler / names / credentials: translate the expectation
		fix := func(m map[string]string) map[string]string {
			r := map[string]string{}
			for k, v := range m {
				r[k] = v
			}
			api := s.Addr
			if port0 {
				api = rtEnv["AWS_LAMBDA_RUNTIME_API"] // chosen by the operating system; must be connectable (below)
			}
			sub := map[string]string{"_HANDLER": "handler.fn", "AWS_LAMBDA_FUNCTION_NAME": "test_function", "AWS_LAMBDA_FUNCTION_VERSION": "$LATEST",
				"AWS_ACCESS_KEY_ID": "AKIDEXAMPLE", "AWS_SECRET_ACCESS_KEY": "secret", "AWS_SESSION_TOKEN": "session", "AWS_LAMBDA_RUNTIME_API": api}
			if c.Cfg.Caching {
				// the credential names are ordinary customer variables in this mode; the container-credential variables
				// carry the address and a per-instance token chosen at run time (must be there, value not predictable)
				delete(sub, "AWS_ACCESS_KEY_ID")
				delete(sub, "AWS_SECRET_ACCESS_KEY")
				delete(sub, "AWS_SESSION_TOKEN")
				for _, k := range []string{"AWS_CONTAINER_CREDENTIALS_FULL_URI", "AWS_CONTAINER_AUTHORIZATION_TOKEN"} {
					if _, ok := r[k]; ok && rtEnv[k] != "" {
						r[k] = rtEnv[k]
					}
				}
			}
			for k, v := range sub {
				if _, ok := r[k]; ok {
					r[k] = v
				}
			}
			return r
		}
		for which, pair := range map[string][2]map[string]string{"runtime(full stack)": {rtEnv, fix(concrete(c.Out.Rt))}, "extension(full stack)": {extEnv, fix(concrete(c.Out.Ag))}} {
			rep.Comparisons++
			if d := diff(pair[0], pair[1]); d != "" && len(rep.Mismatches) < 8 {
				rep.Mismatches = append(rep.Mismatches, Mismatch{Case: i, Cfg: c.Cfg, Which: which, What: d, Got: pair[0], Expect: pair[1]})
			}
		}
		// the advertised address is the one the Runtime API server really listens on
		if conn, err := net.DialTimeout("tcp", rtEnv["AWS_LAMBDA_RUNTIME_API"], time.Second); err != nil {
			rep.Mismatches = append(rep.Mismatches, Mismatch{Case: i, Cfg: c.Cfg, Which: "fullstack", What: "cannot connect to advertised Runtime API address " + rtEnv["AWS_LAMBDA_RUNTIME_API"]})
		} else {
			conn.Close()
		}
		s.AbortClients()
		s.Close()
	}
}

func Load(path string) ([]Case, error) {
	b, err := os.ReadFile(path)
	if err != nil {
		return nil, err
	}
	var cs []Case
	err = json.Unmarshal(b, &cs)
	return cs, err
}
