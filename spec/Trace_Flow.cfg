SPECIFICATION TraceSpec
CONSTANT SetCountBroadcasts = TRUE
CONSTRAINT HighWater
CHECK_DEADLOCK FALSE
