-------------------------------- MODULE Env --------------------------------
(***************************************************************************)
(* Process environment of the runtime and of extensions (property C16),    *)
(* transcribed from lambda/rapidcore/env/environment.go + constants.go and *)
(* the call order of rapidcore.SandboxContext.Init / rapid.acceptInit...   *)
(*                                                                         *)
(* A configuration chooses which key classes occur in the customer map and *)
(* in the emulator's own process environment, the init parameters and the  *)
(* credential mode.  Values are abstract: a pair <<layer, key>> names the   *)
(* layer a value came from; the replayer gives every (layer, key) pair a   *)
(* distinct concrete string (with '=', newlines, empty strings).           *)
(* Every state of this specification is one test case for the real         *)
(* env.Environment API (engine E2: TLC enumerates, the replayer executes). *)
(***************************************************************************)
EXTENDS Integers, FiniteSets, Sequences, TLC

\* one representative key per class
Keys == { "CUST",        \* customer-only name
          "CUST2",       \* a second customer-only name
          "XRAYADDR",    \* AWS_XRAY_DAEMON_ADDRESS        platform, unreserved (customer may override)
          "AKID",        \* AWS_ACCESS_KEY_ID              credentials
          "HANDLER",     \* _HANDLER                       reserved runtime key
          "TASKROOT",    \* LAMBDA_TASK_ROOT               reserved runtime key
          "FNNAME",      \* AWS_LAMBDA_FUNCTION_NAME       reserved platform key (set from init)
          "FNVER",       \* AWS_LAMBDA_FUNCTION_VERSION    reserved platform key (set from init)
          "TZ",          \* TZ                             reserved platform key (from the process environment only)
          "API",         \* AWS_LAMBDA_RUNTIME_API         reserved platform key (always set by the emulator)
          "PRIV",        \* _SOMETHING                     name starting with '_'
          "XCM",         \* AWS_XRAY_CONTEXT_MISSING       excluded from extensions
          "CREDURI",     \* AWS_CONTAINER_CREDENTIALS_FULL_URI   (init-caching credentials)
          "CREDTOK" }    \* AWS_CONTAINER_AUTHORIZATION_TOKEN    (init-caching credentials)

\* keys NewEnvironment() looks up in the emulator's own process environment, by layer
ProcPlatform   == {"FNNAME", "FNVER", "TZ", "API"}
ProcRuntime    == {"HANDLER", "TASKROOT"}
ProcUnreserved == {"XRAYADDR"}
ProcKeys == ProcPlatform \cup ProcRuntime \cup ProcUnreserved

UnderscoreKeys == {"HANDLER", "PRIV"}      \* names that start with '_'
ExtExcluded == {"XCM"} \cup UnderscoreKeys

VARIABLES cfg, out

\* the layers act key by key: every key alone, every key missing, none, all
CustSets == {{}, Keys} \cup {{k} : k \in Keys} \cup {Keys \ {k} : k \in Keys}

Configs ==
    [ cust     : CustSets,               \* keys present in the customer map of the init request
      proc     : {{}, ProcKeys, {"HANDLER", "TZ"}, {"FNNAME", "XRAYADDR", "TASKROOT"}},   \* keys set in the process environment
      caching  : BOOLEAN,                \* init-caching mode (credentials by token) or plain credentials
      override : BOOLEAN,                \* SandboxBuilder.SetHandler given
      initHandler : BOOLEAN,             \* init request carries a handler
      initNames   : BOOLEAN,             \* init request carries function name and version
      emptytok    : BOOLEAN ]            \* the session token of the init request is empty: the variable is still set (to the
                                         \* empty string) by the credentials layer and still shadows the customer's

Union(f, g) == [k \in DOMAIN f \cup DOMAIN g |-> IF k \in DOMAIN g THEN g[k] ELSE f[k]]   \* g wins
Layer(name, ks) == [k \in ks |-> <<name, k>>]
Restrict(f, ks) == [k \in DOMAIN f \cap ks |-> f[k]]

\* state of env.Environment after NewEnvironment, SetHandler (override), StoreRuntimeAPIEnvironmentVariable,
\* StoreEnvironmentVariablesFromInit[ForInitCaching]
Customer(c)   == Layer("cust", c.cust)
Unreserved(c) == Layer("proc", c.proc \cap ProcUnreserved)
Creds(c)      == IF c.caching THEN Layer("cred", {"CREDURI", "CREDTOK"}) ELSE Layer("cred", {"AKID"})
Runtime(c)    ==
    LET base == Layer("proc", c.proc \cap ProcRuntime)
        o    == IF c.override THEN Union(base, [k \in {"HANDLER"} |-> <<"override", k>>]) ELSE base
    IN IF c.initHandler THEN Union(o, [k \in {"HANDLER"} |-> <<"init", k>>]) ELSE o
Platform(c)   ==
    LET base == Layer("proc", c.proc \cap ProcPlatform)
        api  == Union(base, [k \in {"API"} |-> <<"emulator", k>>])
    IN IF c.initNames THEN Union(api, Layer("init", {"FNNAME", "FNVER"})) ELSE api

\* RuntimeExecEnv: customer, overlaid in this order by unreserved platform defaults, credentials,
\* reserved runtime variables, reserved platform variables
RuntimeEnv(c) == Union(Union(Union(Union(Customer(c), Unreserved(c)), Creds(c)), Runtime(c)), Platform(c))

\* AgentExecEnv: customer, credentials, platform; without '_' names and the X-Ray exclusions
AgentEnv(c) ==
    LET u == Union(Union(Customer(c), Creds(c)), Platform(c))
    IN Restrict(u, DOMAIN u \ ExtExcluded)

Init == cfg \in Configs /\ out = [rt |-> RuntimeEnv(cfg), ag |-> AgentEnv(cfg)]
Next == UNCHANGED <<cfg, out>>
Spec == Init /\ [][Next]_<<cfg, out>>

----------------------------------------------------------------------------
(* C16 on the transcription *)

Src(v) == v[1]

\* handler, function name and version, credentials and the Runtime API address cannot be overridden by
\* customer values
ReservedWin ==
    /\ Src(out.rt["API"]) = "emulator"
    /\ (cfg.initHandler \/ cfg.override \/ "HANDLER" \in cfg.proc) => Src(out.rt["HANDLER"]) # "cust"
    /\ cfg.initNames => Src(out.rt["FNNAME"]) = "init" /\ Src(out.rt["FNVER"]) = "init"
    /\ \A k \in DOMAIN Creds(cfg) : Src(out.rt[k]) = "cred"

\* every customer variable that no layer shadows arrives unchanged
UnshadowedArrive ==
    \A k \in cfg.cust :
        (k \notin DOMAIN Unreserved(cfg) \cup DOMAIN Creds(cfg) \cup DOMAIN Runtime(cfg) \cup DOMAIN Platform(cfg))
            => out.rt[k] = <<"cust", k>>

\* extensions: customer, credential and platform variables only; no '_' names, no X-Ray exclusions;
\* the same Runtime API address as the runtime
AgentFiltered ==
    /\ DOMAIN out.ag \cap ExtExcluded = {}
    /\ \A k \in DOMAIN out.ag : Src(out.ag[k]) \in {"cust", "cred", "proc", "init", "emulator"}
    /\ \A k \in DOMAIN out.ag : Src(out.ag[k]) = "proc" => k \in ProcPlatform
    /\ out.ag["API"] = out.rt["API"]
    /\ \A k \in cfg.cust \ ExtExcluded :
          (k \notin DOMAIN Creds(cfg) \cup DOMAIN Platform(cfg)) => out.ag[k] = <<"cust", k>>
=============================================================================
