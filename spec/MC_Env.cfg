SPECIFICATION Spec
INVARIANTS ReservedWin UnshadowedArrive AgentFiltered
CHECK_DEADLOCK FALSE
