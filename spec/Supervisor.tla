----------------------------- MODULE Supervisor -----------------------------
(***************************************************************************)
(* Contract of a process supervisor (lambda/supervisor/local_supervisor.go, *)
(* and the harness's fake): Exec, Terminate (SIGTERM to the group, no      *)
(* wait), Kill (SIGKILL to the group, returns once the process is gone),   *)
(* exactly one truthful termination event per started process (C19).       *)
(* The whole state is one record `sv`: process name -> record.             *)
(***************************************************************************)
EXTENDS Integers, FiniteSets, TLC

\* "orphan0": the process exits 0 at once and leaves a child behind that keeps the inherited output pipe open for a
\* while (the exit notification may wait for that pipe; its status is still the leader's)
\* "orphanq": the same, but the child does not hold the output (the exit of the leader is noticed at once)
\* "exit137": exits with a status above 128 (what a shell reports for a signalled child) - an exit status all the same
Behs == {"exit0", "exit3", "exit137", "sigusr1", "trapterm", "ignoreterm", "fork", "forkignore", "orphan0", "orphanq"}
Ignoring == {"ignoreterm", "forkignore"}       \* SIGTERM has no effect
SelfExiting == {"exit0", "exit3", "exit137", "sigusr1", "orphan0", "orphanq"}   \* terminate by themselves after their delay

NewProc(beh, delay, t) ==
    [st |-> "starting", beh |-> beh, delay |-> delay, t0 |-> t, term |-> FALSE, kills |-> 0,
     cause |-> "", events |-> 0,
     pkd |-> FALSE]      \* the exit of this process had been reported before the Kill (with a deadline in the past) now in progress

\* true status of a process that died for `cause` (fake: a scripted process has no trap handler)
StatusOf(p, cause, fake) ==
    CASE cause = "natural" -> (IF p.beh \in {"exit0", "orphan0", "orphanq"} THEN "exit:0" ELSE IF p.beh = "exit3" THEN "exit:3" ELSE IF p.beh = "exit137" THEN "exit:137" ELSE "signal:10")
      [] cause = "term" -> (IF p.beh = "trapterm" /\ ~fake THEN "exit:7" ELSE "signal:15")
      [] cause = "kill" -> "signal:9"

With(sv, n, rec) == [x \in DOMAIN sv \cup {n} |-> IF x = n THEN rec ELSE sv[x]]

ExecCallEn(sv, n) == n \notin DOMAIN sv
ExecCallDo(sv, n, beh, delay, t) == With(sv, n, NewProc(beh, delay, t))
ExecRetEn(sv, n) == n \in DOMAIN sv /\ sv[n].st = "starting"
ExecRetDo(sv, n) == [sv EXCEPT ![n].st = "running"]

\* SIGTERM is delivered at the call; the call does not wait for the process
TermCallDo(sv, n) == IF n \in DOMAIN sv THEN [sv EXCEPT ![n].term = TRUE] ELSE sv

\* a Kill with a deadline in the future is in progress between call and return
KillCallDo(sv, n, past) == IF n \in DOMAIN sv /\ ~past THEN [sv EXCEPT ![n].kills = @ + 1]
                           ELSE IF n \in DOMAIN sv THEN [sv EXCEPT ![n].pkd = (sv[n].events = 1)] ELSE sv
KillRetDo(sv, n, past) == IF n \in DOMAIN sv /\ ~past THEN [sv EXCEPT ![n].kills = @ - 1] ELSE sv

\* the process dies (internal): by itself, from SIGTERM, or from a Kill in progress
DieEn(sv, n, cause, fake) ==
    /\ n \in DOMAIN sv /\ sv[n].st \in {"starting", "running"}
    /\ CASE cause = "natural" -> sv[n].beh \in SelfExiting /\ ~fake
         [] cause = "term" -> sv[n].term /\ sv[n].beh \notin Ignoring
         [] cause = "kill" -> sv[n].kills > 0
DieDo(sv, n, cause) == [sv EXCEPT ![n].st = "dead", ![n].cause = cause]

EventEn(sv, n) == n \in DOMAIN sv /\ sv[n].st = "dead" /\ sv[n].events = 0
EventDo(sv, n) == [sv EXCEPT ![n].events = 1]

----------------------------------------------------------------------------
(* Model-checking harness: two process names, every behaviour               *)
VARIABLES sv, steps
Names == {"p1", "p2"}
MaxSteps == 7

Init == sv = <<>> /\ steps = 0
Tick == steps < MaxSteps /\ steps' = steps + 1
Next ==
    \/ \E n \in Names, b \in Behs : Tick /\ ExecCallEn(sv, n) /\ sv' = ExecRetDo(ExecCallDo(sv, n, b, 0, 0), n)
    \/ \E n \in Names : Tick /\ n \in DOMAIN sv /\ sv' = TermCallDo(sv, n)
    \/ \E n \in Names : Tick /\ n \in DOMAIN sv /\ sv[n].kills = 0 /\ sv' = KillCallDo(sv, n, FALSE)
    \/ \E n \in Names : n \in DOMAIN sv /\ sv[n].kills > 0 /\ sv[n].st = "dead" /\ sv' = KillRetDo(sv, n, FALSE) /\ UNCHANGED steps
    \/ \E n \in Names, c \in {"natural", "term", "kill"} : DieEn(sv, n, c, FALSE) /\ sv' = DieDo(sv, n, c) /\ UNCHANGED steps
    \/ \E n \in Names : EventEn(sv, n) /\ sv' = EventDo(sv, n) /\ UNCHANGED steps
Deliver(n) == EventEn(sv, n) /\ sv' = EventDo(sv, n) /\ UNCHANGED steps
Spec == Init /\ [][Next]_<<sv, steps>> /\ WF_<<sv, steps>>(Deliver("p1")) /\ WF_<<sv, steps>>(Deliver("p2"))

AtMostOneEvent == \A n \in DOMAIN sv : sv[n].events <= 1
EventOnlyAfterDeath == \A n \in DOMAIN sv : sv[n].events = 1 => sv[n].st = "dead"
DeadStaysDead == [][\A n \in DOMAIN sv : sv[n].st = "dead" => sv'[n].st = "dead" /\ sv'[n].cause = sv[n].cause]_<<sv, steps>>
Reported(n) == n \in DOMAIN sv /\ sv[n].events = 1
Dead(n) == n \in DOMAIN sv /\ sv[n].st = "dead"
EveryDeathReported == (Dead("p1") ~> Reported("p1")) /\ (Dead("p2") ~> Reported("p2"))
=============================================================================
