------------------------------- MODULE Rapid -------------------------------
(***************************************************************************)
(* The emulator as a whole, at the granularity of its critical sections:   *)
(*   - orchestrator (lambda/rapid/handlers.go, sandbox.go, shutdown.go,    *)
(*     exit.go): init, invoke, reset, shutdown, events watcher;            *)
(*   - Runtime API / Extensions API handlers (lambda/rapi) acting on the   *)
(*     runtime and agent automata (lambda/core/states.go, *agent*.go), the *)
(*     registration service and the init/invoke flow latches (GateOps);    *)
(*   - interop server (lambda/rapidcore/server.go): reservation, reply     *)
(*     stream, cached init error, completion channel; Server.Invoke of one *)
(*     caller is a sequential program with a nondeterministic timer;       *)
(*   - process supervisor contract and the environment (scripted runtime,  *)
(*     extensions, callers).                                               *)
(*                                                                         *)
(* The whole state is ONE record `st`; every action is  En(st) /\ st' =    *)
(* Do(st), where Do is a pure function on the record.  That keeps the      *)
(* module free of UNCHANGED lists and lets the trace specification          *)
(* (Trace_Rapid.tla) and the model-checking configurations compose the     *)
(* same functions.                                                         *)
(*                                                                         *)
(* An API call is three steps: Issue (the client sends it), Effect (the    *)
(* handler's critical section; a poll may park here) and Return (the       *)
(* client has read the answer).  Issue and Return are the observable       *)
(* events of recorded traces; Effect, Wake and all orchestrator steps are  *)
(* internal.                                                               *)
(*                                                                         *)
(* The model describes the code as it is.  Where the code contradicts a    *)
(* listed property the behaviour is kept and the property is stated        *)
(* separately, so that TLC exhibits the counterexample (DESIGN.md 7).      *)
(***************************************************************************)
EXTENDS Integers, Sequences, FiniteSets, TLC, GateOps

CONSTANTS
    ExtOrder,       \* sequence of the names that may be files in the extensions directory, in directory order
    Callers,        \* identities of invocation callers
    MaxAgents,      \* 10 in the code
    AsFound         \* names of repaired defects to model as they were found ({} = the code as repaired)

ExtUniverse == {ExtOrder[i] : i \in DOMAIN ExtOrder}
DirOrder(S) == SelectSeq(ExtOrder, LAMBDA x : x \in S)

VARIABLE st

----------------------------------------------------------------------------
(* helpers *)

RtBase == "runtime"
RtProc(g) == <<RtBase, g>>

InitGates == [extReg |-> GNew(0), rtRestore |-> GNew(1), rtReady |-> GNew(1), agReady |-> GNew(MaxU16)]
InvGates  == [rtResp |-> GNew(1), rtReady |-> GNew(1), agReady |-> GNew(MaxU16)]

CancelAll(gs, e) == [n \in DOMAIN gs |-> GCancel(gs[n], e)[1]]
ClearAll(gs)     == [n \in DOMAIN gs |-> GClear(gs[n])[1]]
ResetAll(gs)     == [n \in DOMAIN gs |-> GReset(gs[n])[1]]

CancelAllInit(s, e) == [s EXCEPT !.ig = CancelAll(@, e)]

FF(cur, e) == IF cur = "none" THEN e ELSE cur     \* store-if-absent

Agents(s) == DOMAIN s.ag
Subscribed(s, ev) == {a \in Agents(s) : ev \in s.ag[a].subs}

----------------------------------------------------------------------------
(* pause points of the verification hooks: a goroutine reaches the point (HookEnter) and stays there *)
(* until the harness lets it go (HookLeave); the step behind the point is disabled meanwhile        *)

HeldN(s, p) == IF p \in DOMAIN s.held THEN s.held[p] ELSE 0

\* number of goroutines that are at the point (its next step is the one behind the point)
AtPointN(s, p) ==
    CASE p = "rapid.reinitialize"      -> Cardinality({x \in DOMAIN s.rs : s.rs[x].pc = "r3"})
      [] p = "server.resetBeforeClear" -> Cardinality({x \in DOMAIN s.rs : s.rs[x].pc = "r4"})
      [] p = "server.beforeReserve"    -> Cardinality({k \in DOMAIN s.iv : s.iv[k].r = "res"})
      [] p = "server.beforeFastInvoke" -> Cardinality({k \in DOMAIN s.iv : s.iv[k].f = "fast"})
      [] p = "server.initWaitFailed"   -> Cardinality({k \in DOMAIN s.iv : s.iv[k].f \in {"aerr", "aerrR"}})
      [] p = "server.resetBeforeRelease" -> IF s.rdone > 0 THEN 1 ELSE 0
      [] p = "server.beforeFinalRelease" -> Cardinality({k \in DOMAIN s.iv : s.iv[k].m = "sel" /\ s.iv[k].r = "sendok"})
      [] p = "invoke.beforeSetRenderer" -> IF s.pcV.pc = "v1" THEN 1 ELSE 0
      [] p = "core.newInternalAgent"   -> Cardinality({c \in DOMAIN s.calls : s.calls[c].api = "register" /\ s.calls[c].st = "issued"
                                                          /\ ~(s.calls[c].name \in Agents(s) /\ s.ag[s.calls[c].name].kind = "ext")})
      [] p = "watch.flowsCanceled"     -> IF s.pcW.pc = "w3" THEN 1 ELSE 0
      [] p = "server.sendResponse"      -> Cardinality({c \in DOMAIN s.calls : s.calls[c].api = "response" /\ s.calls[c].st = "issued"})
      \* SendErrorResponse is entered by the /error handler and by the inner FastInvoke goroutine (default error)
      [] p = "server.sendErrorResponse" -> Cardinality({c \in DOMAIN s.calls : s.calls[c].api = "error" /\ s.calls[c].st = "issued"})
                                           + Cardinality({k \in DOMAIN s.iv : s.iv[k].i = "deferr"})
      \* the inner FastInvoke goroutine asks for the internal state while it builds its completion message (a driver-side
      \* point: the harness wraps the state getter it hands to the server)
      [] p = "server.stateGetter"      -> Cardinality({k \in DOMAIN s.iv : s.iv[k].i \in {"sendok", "sendfail"}})
      [] p = "init.afterRegisterCount" -> IF s.pcI.pc = "d2" /\ Len(s.toExec) = Cardinality(s.extFiles) THEN 1 ELSE 0
      [] OTHER -> 0
\* the step behind p may be taken by a goroutine at p only if not all goroutines at p are held
Free(s, p) == HeldN(s, p) = 0 \/ AtPointN(s, p) > HeldN(s, p)

HookEnterEn(s, p) == AtPointN(s, p) > HeldN(s, p)          \* a goroutine at the point that is not yet counted as held
HookEnterDo(s, p) == [s EXCEPT !.held = [q \in DOMAIN s.held \cup {p} |-> IF q = p THEN HeldN(s, p) + 1 ELSE s.held[q]]]
HookLeaveEn(s, p) == HeldN(s, p) > 0
HookLeaveDo(s, p) == [s EXCEPT !.held[p] = @ - 1]



NewAgent(kind, state, err, g) == [kind |-> kind, st |-> state, subs |-> {}, flag |-> FALSE, err |-> err, gen |-> g, rid |-> 0]
WithAgent(s, a, rec) == [s EXCEPT !.ag = [x \in DOMAIN s.ag \cup {a} |-> IF x = a THEN rec ELSE s.ag[x]]]
WithProc(s, p, rec)  == [s EXCEPT !.procs = [x \in DOMAIN s.procs \cup {p} |-> IF x = p THEN rec ELSE s.procs[x]]]
WithCall(s, c, rec)  == [s EXCEPT !.calls = [x \in DOMAIN s.calls \cup {c} |-> IF x = c THEN rec ELSE s.calls[x]]]
DropCall(s, c)       == [s EXCEPT !.calls = [x \in DOMAIN s.calls \ {c} |-> s.calls[x]]]

NoBody == <<"empty", "">>
NoCached == <<"none", "">>

PcSOff == [pc |-> "off", by |-> <<>>, rtp |-> <<>>, todo |-> {}, reason |-> "", dl |-> 0, tterm |-> 0, treap |-> 0]

NoRes == [status |-> 0, et |-> "", kind |-> "", inv |-> 0, pl |-> 0, reason |-> ""]
Res(status, et) == [NoRes EXCEPT !.status = status, !.et = et]

TelEv(kind, phase, status, et, inv) == [kind |-> kind, phase |-> phase, status |-> status, et |-> et, inv |-> inv]
Emit(s, e) == [s EXCEPT !.tel = Append(@, e)]

----------------------------------------------------------------------------
(* Initial state; the directory content and the launch failures are chosen *)
(* by the environment once.                                                *)

State0(files, lf) ==
    [ extFiles |-> files, launchFail |-> lf,
      timeoutMs |-> 0, strictTimer |-> TRUE,   \* scenario parameters (trace validation)
      caching |-> FALSE,               \* snapshot (init-caching) mode: restore routes and credentials endpoint exist
      credVal |-> "none",              \* credentials served for the per-instance token: "none" | "init" | restore label
      pcT |-> [pc |-> "off", err |-> "", dl |-> 0],     \* handleRestore
      restoreErrType |-> "",
      gen |-> 0,                       \* runtimeDomainGeneration
      hm |-> "free",                   \* handlerExecutionMutex owner
      pcI |-> [pc |-> "off", ctx |-> "init", err |-> ""],   \* doRuntimeDomainInit
      toExec |-> <<>>, rtDone |-> "na",
      procs |-> <<>>,                  \* <<base, gen>> -> [st, ev, ch]
      rt |-> "none", rtFlag |-> FALSE, \* runtime automaton, ManagedThread flag
      ag |-> <<>>,                     \* agent name -> [kind, st, subs, flag, err]
      regOpen |-> TRUE, cancelOnce |-> FALSE, initDone |-> FALSE,
      rel |-> 0,                       \* generation of the runtime whose identity string (User-Agent) is on record; 0: none
      lateEv |-> FALSE,                \* an exit notification was handled after the reset that had given up waiting for it
      renderer |-> "none", rendInv |-> 0, rendSrc |-> 0, rendReason |-> "", firstFatal |-> "none",
      ig |-> InitGates, vg |-> InvGates,
      shutOn |-> FALSE, shutAwait |-> {},
      pcV |-> [pc |-> "off", k |-> 0, src |-> 0, err |-> ""],    \* handleInvoke (k: request id, src: dispatching call)
      rs |-> <<>>, rdone |-> 0,                                  \* Server.Reset goroutines, pending ResetDoneChan messages
      pcS |-> PcSOff,  \* shutdown()
      pcW |-> [pc |-> "idle", p |-> <<>>, err |-> ""],           \* events watcher
      srv |-> [inv |-> 0, stream |-> FALSE, sent |-> FALSE, sowner |-> 0, cached |-> NoCached, phase |-> "idle",
               done |-> "empty", doneId |-> 0, initOut |-> "unset", resc |-> {}],
      iv |-> <<>>,                     \* invocation ordinal -> Server.Invoke record
      busy |-> [c \in Callers |-> 0],  \* caller -> its invocation in progress
      ninv |-> 0,
      calls |-> <<>>, ncalls |-> 0,
      crashed |-> FALSE,
      held |-> <<>>,                   \* pause points (verif hooks): point -> number of goroutines the harness holds there
      drvDl |-> 0,
      drv |-> "idle",                  \* platform driver calling Server.Reset / Server.Shutdown directly
      tel |-> <<>> ]

Init == \E files \in SUBSET ExtUniverse : \E lf \in SUBSET (files \cup {RtBase}) : st = State0(files, lf)

----------------------------------------------------------------------------
(* registrationService.CancelFlows: only the first cancel of a generation  *)
(* acts (sync.Once, re-armed by Clear)                                     *)

CancelFlows(s, e) ==
    IF s.cancelOnce THEN s
    ELSE [s EXCEPT !.cancelOnce = TRUE, !.ig = CancelAll(@, e), !.vg = CancelAll(@, e)]

----------------------------------------------------------------------------
(* doRuntimeDomainInit, run by HandleInit (ctx "init") or inline by        *)
(* doInvoke (ctx "invoke")                                                 *)

InitFail(s, e) == [s EXCEPT !.pcI.pc = "end", !.pcI.err = e]

\* entry: InitStart telemetry, generation++, SetExternalAgentsRegisterCount
InitBegin(s, ctx) ==
    LET sc == GSetCount(s.ig.extReg, Cardinality(s.extFiles))
        s1 == Emit([s EXCEPT !.gen = @ + 1, !.rtDone = "na", !.lateEv = FALSE], TelEv("InitStart", ctx, "", "", 0))
    IN IF sc[2] = "ok"
       THEN [s1 EXCEPT !.ig.extReg = sc[1], !.toExec = DirOrder(s.extFiles),
                       !.pcI = [pc |-> "d2", ctx |-> ctx, err |-> ""]]
       ELSE [s1 EXCEPT !.toExec = <<>>, !.pcI = [pc |-> "end", ctx |-> ctx, err |-> "ErrGateIntegrity"]]

\* Server.Init: the platform starts initialisation (observable: InitCall); HandleInit runs in its own
\* goroutine and queues on the handler mutex like every other handler
StartInitEn(s) == s.srv.initOut = "unset"
StartInitDo(s) == [s EXCEPT !.srv.initOut = "pending", !.srv.phase = "init", !.pcI.pc = "spawned"]

InitLockEn(s) == s.pcI.pc = "spawned" /\ s.hm = "free"
InitLockDo(s) == InitBegin([s EXCEPT !.hm = "init", !.credVal = IF s.caching THEN "init" ELSE "none"], "init")

\* d2: create the agent object of the next external extension (registration of that name is possible from
\* now on) ...
CreateExtEn(s) == s.pcI.pc = "d2" /\ Len(s.toExec) > 0 /\ Free(s, "init.afterRegisterCount")
CreateExtDo(s) ==
    LET e == Head(s.toExec) IN
    IF ~s.regOpen THEN InitFail([s EXCEPT !.toExec = Tail(@)], "ErrRegistrationServiceOff")
    ELSE IF e \in Agents(s) THEN InitFail([s EXCEPT !.toExec = Tail(@)], "ErrAgentNameCollision")
    ELSE IF Cardinality(Agents(s)) + 1 > MaxAgents
    THEN InitFail([WithAgent([s EXCEPT !.toExec = Tail(@)], e, NewAgent("ext", "LaunchError", "TooManyExtensions", s.gen))
                      EXCEPT !.firstFatal = FF(@, "Extension.LaunchError")], "ErrTooManyExtensions")
    ELSE [WithAgent(s, e, NewAgent("ext", "Started", "", s.gen)) EXCEPT !.pcI.pc = "d2x"]

\* ... and launch its process (observable: Exec)
LaunchExtEn(s) == s.pcI.pc = "d2x" /\ Len(s.toExec) > 0
LaunchExtDo(s) ==
    LET e  == Head(s.toExec)
        s1 == [s EXCEPT !.toExec = Tail(@), !.pcI.pc = "d2"]
    IN IF e \in s.launchFail
       THEN InitFail([s1 EXCEPT !.ag[e].st = "LaunchError", !.ag[e].err = "UnknownError",
                                !.firstFatal = FF(@, "Extension.LaunchError")], "launch")
       ELSE WithProc(s1, <<e, s.gen>>, [st |-> "running", ev |-> "none", ch |-> "open"])
LaunchExtExec(s) == IF Head(s.toExec) \in s.launchFail THEN "launch" ELSE "ok"

\* d3+d4: all external extensions registered -> create, register and launch the runtime
LaunchRuntimeEn(s) == s.pcI.pc = "d2" /\ Len(s.toExec) = 0 /\ GCond(s.ig.extReg) /\ Free(s, "init.afterRegisterCount")
LaunchRuntimeDo(s) ==
    LET o == GOutcome(s.ig.extReg) IN
    IF o # "ok" THEN InitFail(s, o)
    ELSE IF ~s.regOpen THEN InitFail(s, "ErrRegistrationServiceOff")
    ELSE IF RtBase \in s.launchFail
    THEN InitFail([s EXCEPT !.rt = "Started", !.rtFlag = FALSE, !.rtDone = "error",
                            !.firstFatal = FF(@, "Runtime.InvalidEntrypoint")], "launch")
    ELSE [WithProc(s, RtProc(s.gen), [st |-> "running", ev |-> "none", ch |-> "open"])
             EXCEPT !.rt = "Started", !.rtFlag = FALSE, !.rtDone = "success", !.pcI.pc = "d5"]
LaunchRuntimeExec(s) ==
    IF GOutcome(s.ig.extReg) # "ok" \/ ~s.regOpen THEN "none"
    ELSE IF RtBase \in s.launchFail THEN "launch" ELSE "ok"

\* d5: runtime reached its first poll -> close registration, arm the agents-ready latch
AfterRuntimeReadyEn(s) == s.pcI.pc = "d5" /\ GCond(s.ig.rtRestore)
AfterRuntimeReadyDo(s) ==
    LET o  == GOutcome(s.ig.rtRestore)
        sc == GSetCount(s.ig.agReady, Cardinality(Agents(s)))
    IN IF o # "ok" THEN InitFail([s EXCEPT !.rtDone = "error"], o)
       ELSE IF sc[2] # "ok" THEN InitFail([s EXCEPT !.regOpen = FALSE], "ErrGateIntegrity")
       ELSE [s EXCEPT !.regOpen = FALSE, !.ig.agReady = sc[1], !.pcI.pc = "d6"]

\* d6: every registered extension polled for its first event
AgentsReadyEn(s) == s.pcI.pc = "d6" /\ GCond(s.ig.agReady)
AgentsReadyDo(s) ==
    LET o == GOutcome(s.ig.agReady) IN
    IF o # "ok" THEN InitFail([s EXCEPT !.rtDone = "error"], o)
    ELSE [s EXCEPT !.initDone = TRUE, !.pcI.pc = "end", !.pcI.err = ""]

\* deferred senders (LIFO): InitRuntimeDone (if the runtime launch was attempted), one line per
\* extension, InitReport; then the outcome goes to whoever ran the init
InitEndEn(s) == s.pcI.pc = "end"
InitEndDo(s) ==
    LET et == IF s.rtDone = "error" THEN (IF s.firstFatal = "none" THEN "Runtime.Unknown" ELSE s.firstFatal) ELSE ""
        s1 == IF s.rtDone = "na" THEN s ELSE Emit(s, TelEv("InitRuntimeDone", s.pcI.ctx, s.rtDone, et, 0))
        s2 == IF Agents(s) = {} THEN s1
              ELSE Emit(s1, [kind |-> "ExtensionInit",
                             lines |-> {[name |-> a, st |-> s.ag[a].st, subs |-> s.ag[a].subs, err |-> s.ag[a].err] : a \in Agents(s)}])
        s3 == Emit(s2, TelEv("InitReport", s.pcI.ctx, "", "", 0))
    IN IF s.pcI.ctx = "init"
       THEN \* HandleInit: message to awaitInitCompletion (acknowledged at once), mutex released
            [s3 EXCEPT !.hm = "free",
                       !.srv.initOut = IF s.pcI.err = "" THEN "ok" ELSE IF s.pcI.err = "reset" THEN "failreset" ELSE "fail",
                       !.pcI = [pc |-> "off", ctx |-> "init", err |-> s.pcI.err]]
       ELSE [s3 EXCEPT !.pcI = [pc |-> "off", ctx |-> "invoke", err |-> s.pcI.err],
                       !.pcV.pc = IF s.pcI.err = "" THEN "v1" ELSE "fail0", !.pcV.err = s.pcI.err]

----------------------------------------------------------------------------
(* handleInvoke / doInvoke                                                 *)

InvokeLockEn(s) == s.pcV.pc = "v0" /\ s.hm = "free"
InvokeLockDo(s) ==
    LET s1 == [s EXCEPT !.hm = "invoke"] IN
    IF s.initDone THEN [s1 EXCEPT !.pcV.pc = "v1"]
    ELSE InitBegin([s1 EXCEPT !.pcV.pc = "init"], "invoke")

\* inline init failed: InvokeStart is still sent, then the error is handled
InvokeInitFailedEn(s) == s.pcV.pc = "fail0"
InvokeInitFailedDo(s) == Emit([s EXCEPT !.pcV.pc = "fail"], TelEv("InvokeStart", "", "", "", s.pcV.k))

\* v1: InvokeStart, re-arm barriers, count INVOKE subscribers, set renderer, release parties
DispatchEn(s) == s.pcV.pc = "v1" /\ Free(s, "invoke.beforeSetRenderer")
DispatchDo(s) ==
    LET vg1  == ResetAll(s.vg)
        subs == Subscribed(s, "INVOKE")
        sc   == GSetCount(vg1.agReady, Cardinality(subs))
        s1   == Emit(s, TelEv("InvokeStart", "", "", "", s.pcV.k))
    IN IF sc[2] # "ok"
       THEN [s1 EXCEPT !.vg = vg1, !.pcV.pc = "fail", !.pcV.err = "ErrGateIntegrity"]
       ELSE [s1 EXCEPT !.vg = [vg1 EXCEPT !.agReady = sc[1]],
                       !.renderer = "invoke", !.rendInv = s.pcV.k, !.rendSrc = s.pcV.src,
                       !.ag = [a \in Agents(s) |-> IF a \in subs THEN [s.ag[a] EXCEPT !.flag = TRUE] ELSE s.ag[a]],
                       !.rtFlag = TRUE,
                       !.pcV.pc = "v3"]

\* v3: runtime posted its response
AwaitResponseEn(s) == s.pcV.pc = "v3" /\ GCond(s.vg.rtResp)
AwaitResponseDo(s) ==
    LET o == GOutcome(s.vg.rtResp) IN
    IF o = "ok" THEN [s EXCEPT !.pcV.pc = "v4"] ELSE [s EXCEPT !.pcV.pc = "fail", !.pcV.err = o]

\* v4: runtime returned to next -> RuntimeDone(success); wait for extensions if there are any
AwaitRuntimeBackEn(s) == s.pcV.pc = "v4" /\ GCond(s.vg.rtReady)
AwaitRuntimeBackDo(s) ==
    LET o == GOutcome(s.vg.rtReady) IN
    IF o = "ok"
    THEN Emit([s EXCEPT !.pcV.pc = IF Cardinality(Agents(s)) > 0 THEN "v5" ELSE "ok"],
              TelEv("RuntimeDone", "", "success", "", s.pcV.k))
    ELSE [s EXCEPT !.pcV.pc = "fail", !.pcV.err = o]

\* v5: every INVOKE subscriber returned to next
AwaitAgentsBackEn(s) == s.pcV.pc = "v5" /\ GCond(s.vg.agReady)
AwaitAgentsBackDo(s) ==
    LET o == GOutcome(s.vg.agReady) IN
    IF o = "ok" THEN [s EXCEPT !.pcV.pc = "ok"] ELSE [s EXCEPT !.pcV.pc = "fail", !.pcV.err = o]

\* platform-generated error body for a failed invocation: names the first fault
DefaultErr(s) == <<"err", IF s.firstFatal = "none" THEN "Sandbox.Failure" ELSE s.firstFatal>>

\* handleInvoke returns: mutex released; the result goes to the inner FastInvoke goroutine of the
\* call that dispatched it (success -> completion message; reset -> nothing; other failure ->
\* default error body naming the first fault, then a failure message)
InvokeReturnEn(s) == s.pcV.pc \in {"ok", "fail"}
InvokeReturnDo(s) ==
    LET s1 == [s EXCEPT !.hm = "free", !.pcV = [pc |-> "off", k |-> 0, src |-> 0, err |-> ""]]
        k == s.pcV.src
    IN IF s.pcV.pc = "ok" THEN [s1 EXCEPT !.iv[k].i = "sendok", !.iv[k].msg = "ok", !.iv[k].rel = s.rel]
       ELSE IF s.pcV.err = "reset" THEN [s1 EXCEPT !.iv[k].i = "off", !.iv[k].msg = "rst", !.iv[k].rel = s.rel]
       ELSE [s1 EXCEPT !.iv[k].i = "deferr", !.iv[k].derr = DefaultErr(s), !.iv[k].msg = "fail", !.iv[k].rel = s.rel]

----------------------------------------------------------------------------
(* Server.Invoke, one record per invocation k (rapidcore/server.go:627-739): *)
(*   m  main goroutine: timer select, Reset("Timeout"), final Release        *)
(*   r  release goroutine: Reserve, AwaitRelease, Reset("ReleaseFail")       *)
(*   f  FastInvoke goroutine: awaitInitialized, Shutdown after a failed      *)
(*      init, setReplyStream, hand-over to the orchestrator                  *)
(*   i  its inner goroutine: invoker.Wait, default error, completion message *)
(* The goroutines f and i of an invocation may outlive its answer.           *)

\* pl: label of the event payload (k = the bytes of invocation k, 0 = empty); an event larger than the
\* limit reaches the runtime cut at the limit (label -k)
NewInv(c, pl) == [c |-> c, pl |-> pl, id |-> 0, t0 |-> 0, m |-> "start", r |-> "off", f |-> "off", i |-> "off",
                  out |-> "", relRes |-> "", body |-> NoBody, derr |-> NoBody,
                  got |-> FALSE,      \* a body (possibly empty) has been written to this caller's reply stream
                  once |-> "free",    \* resetOnce of this Server.Invoke call: "free" | "busy" (a reset is running) | "done"
                  msg |-> "", rel |-> 0,   \* the result rapid handed to the server ("ok" | "fail" | "rst") and the runtime identity it carries
                  lg |-> FALSE]       \* trace validation: the event payload is large (its delivery to the runtime takes time)

WithInv(s, k, rec) == [s EXCEPT !.iv = [x \in DOMAIN s.iv \cup {k} |-> IF x = k THEN rec ELSE s.iv[x]]]

\* Server.Release: cancel the reservation context, forget the invoke context
Release(s) ==
    IF s.srv.inv = 0 THEN s
    ELSE [s EXCEPT !.srv.resc = @ \cup {s.srv.inv}, !.srv.inv = 0, !.srv.stream = FALSE, !.srv.sent = FALSE,
                   !.srv.sowner = 0]

\* Server.Reset, after receiving the completion message of the reset goroutine (which has released the
\* reservation in Server.Clear): as found ("reset-wrapper-releases", F-C10-4) it called Release once more and
\* thereby dropped a reservation made in between; repaired by 462e73b
WrapperRelease(s) == IF "reset-wrapper-releases" \in AsFound THEN Release(s) ELSE s

\* Server.Invoke, success branch of its select: as found ("final-release", F-C10-6) it called Release once more after
\* AwaitRelease had released the reservation, dropping a reservation made in between; repaired in /repo
FinalRelease(s) == IF "final-release" \in AsFound THEN Release(s) ELSE s

\* observable: a caller enters Server.Invoke
CallerStartEn(s, c) == s.busy[c] = 0
CallerStartDo(s, c, pl, big) ==
    LET k == s.ninv + 1 IN
    [WithInv(s, k, NewInv(c, IF big THEN 0 - k ELSE pl)) EXCEPT !.ninv = k, !.busy[c] = k]

\* main: initFailures channel not created yet -> ErrInitNotStarted; else start the release goroutine
MainBeginEn(s, k) == s.iv[k].m = "start"
MainBeginDo(s, k) ==
    IF s.srv.initOut = "unset" THEN [s EXCEPT !.iv[k].m = "ret", !.iv[k].out = "InitNotStarted"]
    ELSE [s EXCEPT !.iv[k].m = "sel", !.iv[k].r = "res"]

\* release goroutine: Reserve.  A failed reservation is reported through releaseErrChan
\* (tree after the fix of F-C10-1; the tree as found dereferenced the nil response and crashed).
RelReserveEn(s, k) == s.iv[k].r = "res" /\ Free(s, "server.beforeReserve")
RelReserveDo(s, k) ==
    IF s.srv.inv # 0 THEN [s EXCEPT !.iv[k].r = "senderr", !.iv[k].relRes = "AlreadyReserved"]
    ELSE [s EXCEPT !.srv.inv = k, !.srv.stream = FALSE, !.srv.sent = FALSE, !.srv.sowner = 0,
                   !.iv[k].r = "await", !.iv[k].f = "ainit"]

\* FastInvoke goroutine: awaitInitialized blocks until init finished; the first reader consumes a
\* failure, caches an (empty) init error response unless the runtime supplied one, and shuts down
FioAwaitInitEn(s, k) == s.iv[k].f = "ainit" /\ s.srv.initOut \in {"ok", "fail", "failreset", "closed"}
FioAwaitInitDo(s, k) ==
    [s EXCEPT !.srv.initOut = "closed",
              !.iv[k].f = IF s.srv.initOut = "fail" THEN "aerr" ELSE IF s.srv.initOut = "failreset" THEN "aerrR" ELSE "fast"]

\* the init wait ended with a failure (pause point server.initWaitFailed): cache an (empty) init error response
\* unless the runtime supplied one.  If init was interrupted by a reset, i.e. by this invocation's own timeout, the
\* repaired code (F-C05-2) stops here; as found ("fio-continues-after-reset") it went on to shut down and to
\* FastInvoke like after a failed init, possibly long after the reset and into the environment of a later invocation
FioInitFailedEn(s, k) == s.iv[k].f \in {"aerr", "aerrR"} /\ Free(s, "server.initWaitFailed")
FioInitFailedDo(s, k) ==
    LET s1 == [s EXCEPT !.srv.cached = IF @ = NoCached THEN NoBody ELSE @] IN
    IF s.iv[k].f = "aerrR" /\ "fio-continues-after-reset" \notin AsFound
    THEN [s1 EXCEPT !.iv[k].f = "off"]
    ELSE [s1 EXCEPT !.iv[k].f = "shut"]

\* Server.Shutdown -> HandleShutdown under the handler mutex
FioShutdownEn(s, k) == s.iv[k].f = "shut" /\ s.hm = "free" /\ s.pcS.pc = "off"
FioShutdownDo(s, k) ==
    [s EXCEPT !.hm = "shutdown", !.iv[k].f = "shutw",
              !.pcS = [pc |-> "s0", by |-> <<"fio", k>>, rtp |-> <<>>, todo |-> {}, reason |-> "spindown", dl |-> 0, tterm |-> 0, treap |-> 0]]

FioShutdownDoneEn(s, k) == s.iv[k].f = "shutw" /\ s.pcS.pc = "done" /\ s.pcS.by = <<"fio", k>>
FioShutdownDoneDo(s, k) ==
    [s EXCEPT !.hm = "free", !.iv[k].f = "fast", !.srv.phase = "idle",
              !.pcS = PcSOff]

\* FastInvoke: attach this call's reply stream to whatever reservation is current, take its id,
\* start the inner goroutine
FioFastInvokeEn(s, k) == s.iv[k].f = "fast" /\ Free(s, "server.beforeFastInvoke")
FioFastInvokeDo(s, k) ==
    IF s.srv.inv = 0 \/ s.srv.sent \/ s.srv.stream
    THEN [s EXCEPT !.iv[k].f = "off"]        \* NotReserved / AlreadyReplied / AlreadyInvocating: nothing dispatched
    ELSE [s EXCEPT !.srv.stream = TRUE, !.srv.sowner = k, !.srv.phase = "invoking",
                   !.iv[k].f = "off", !.iv[k].i = "start", !.iv[k].id = s.srv.inv]

\* inner goroutine: invoker.SendRequest starts HandleInvoke (which queues on the handler mutex)
FiiStartEn(s, k) == s.iv[k].i = "start" /\ s.pcV.pc = "off"
FiiStartDo(s, k) == [s EXCEPT !.pcV = [pc |-> "v0", k |-> s.iv[k].id, src |-> k, err |-> ""], !.iv[k].i = "wait"]

\* invoke failed (not by a reset): default error to the invocation this call dispatched (tree after the fix
\* of F-C02-1; the tree as found addressed whichever invocation was current and panicked when there was none);
\* the cached init error response wins over the default body
FiiDefaultErrorEn(s, k) == s.iv[k].i = "deferr" /\ Free(s, "server.sendErrorResponse")
FiiDefaultErrorDo(s, k) ==
    LET body == IF s.srv.cached # NoCached THEN s.srv.cached ELSE s.iv[k].derr IN
    IF s.srv.inv = 0 \/ s.srv.inv # s.iv[k].id THEN [s EXCEPT !.iv[k].i = "sendfail"]     \* that invocation is gone
    ELSE IF s.srv.sent THEN [s EXCEPT !.iv[k].i = "sendfail"]
    ELSE IF ~s.srv.stream THEN [s EXCEPT !.crashed = TRUE, !.iv[k].i = "off"]              \* log.Panicf
    ELSE [s EXCEPT !.srv.sent = TRUE, !.iv[s.srv.sowner].body = body, !.iv[k].i = "sendfail"]

\* completion message into the buffered InvokeDoneChan (blocks while it is full)
\* (tagged with the id of the invocation it completes: tree after the fix of F-C08-4)
FiiSendDoneEn(s, k) == s.iv[k].i \in {"sendok", "sendfail"} /\ s.srv.done = "empty" /\ Free(s, "server.stateGetter")
FiiSendDoneDo(s, k) == [s EXCEPT !.srv.done = IF s.iv[k].i = "sendok" THEN "ok" ELSE "fail", !.srv.doneId = s.iv[k].id,
                                 !.iv[k].i = "off"]

\* AwaitRelease of invocation k: a completion message (of whichever invocation) or the end of
\* its reservation
RelAwaitEn(s, k) == s.iv[k].r = "await" /\ (s.srv.done # "empty" \/ k \in s.srv.resc)
RelAwaitDo(s, k) ==
    IF s.srv.done # "empty" /\ s.srv.doneId # s.srv.inv
    THEN [s EXCEPT !.srv.done = "empty"]        \* completion of an earlier invocation: dropped, keep waiting
    ELSE IF s.srv.done = "ok"
    THEN [Release([s EXCEPT !.srv.done = "empty", !.srv.phase = "idle"]) EXCEPT !.iv[k].r = "sendok"]
    ELSE IF s.srv.done = "fail"
    THEN IF s.iv[k].once = "free" \/ "double-reset" \in AsFound
         THEN [s EXCEPT !.srv.done = "empty", !.srv.phase = "idle", !.iv[k].r = "rst", !.iv[k].once = "busy",
                        !.rs = [x \in DOMAIN s.rs \cup {<<k, "F">>} |->
                                   IF x = <<k, "F">> THEN [pc |-> "r0", reason |-> "ReleaseFail", dl |-> 0] ELSE s.rs[x]]]
         \* the timeout is already resetting this invocation (resetOnce, repair of F-C10-3): wait until it is done
         ELSE [s EXCEPT !.srv.done = "empty", !.srv.phase = "idle", !.iv[k].r = "oncew"]
    ELSE [s EXCEPT !.srv.phase = "idle", !.iv[k].r = "sendok"]     \* ErrReleaseReservationDone is not an error

\* Reset returned to the release goroutine: Release, then the error goes to main
RelAfterResetEn(s, k) == s.iv[k].r = "rst" /\ s.rdone > 0 /\ Free(s, "server.resetBeforeRelease")
RelAfterResetDo(s, k) ==
    [WrapperRelease([s EXCEPT !.rdone = @ - 1]) EXCEPT !.iv[k].r = "senderr", !.iv[k].relRes = "InvokeDoneFailed", !.iv[k].once = "done"]

RelOnceWaitEn(s, k) == s.iv[k].r = "oncew" /\ s.iv[k].once = "done"
RelOnceWaitDo(s, k) == [s EXCEPT !.iv[k].r = "senderr", !.iv[k].relRes = "InvokeDoneFailed"]

\* main receives from releaseSuccessChan / releaseErrChan
MainGotResultEn(s, k) == s.iv[k].m = "sel" /\ s.iv[k].r \in {"sendok", "senderr"}
                         /\ (s.iv[k].r = "sendok" => Free(s, "server.beforeFinalRelease"))
MainGotResultDo(s, k) ==
    IF s.iv[k].r = "sendok"
    THEN [FinalRelease(s) EXCEPT !.iv[k].m = "ret", !.iv[k].out = "", !.iv[k].r = "off"]
    ELSE [s EXCEPT !.iv[k].m = "ret", !.iv[k].out = s.iv[k].relRes, !.iv[k].r = "off"]

\* the timer fires: Reset("Timeout", 2000)
MainTimeoutEn(s, k) == s.iv[k].m = "sel"
MainTimeoutDo(s, k) ==
    IF s.iv[k].once = "free" \/ "double-reset" \in AsFound
    THEN [s EXCEPT !.iv[k].m = "rst", !.iv[k].once = "busy",
                   !.rs = [x \in DOMAIN s.rs \cup {<<k, "T">>} |->
                              IF x = <<k, "T">> THEN [pc |-> "r0", reason |-> "Timeout", dl |-> s.iv[k].t0 + s.timeoutMs + 2000]
                              ELSE s.rs[x]]]
    \* the release goroutine is already resetting this invocation (resetOnce): wait until it is done
    ELSE [s EXCEPT !.iv[k].m = "oncew"]

MainAfterResetEn(s, k) == s.iv[k].m = "rst" /\ s.rdone > 0 /\ Free(s, "server.resetBeforeRelease")
MainAfterResetDo(s, k) == [WrapperRelease([s EXCEPT !.rdone = @ - 1]) EXCEPT !.iv[k].m = "sel2", !.iv[k].once = "done"]

MainOnceWaitEn(s, k) == s.iv[k].m = "oncew" /\ s.iv[k].once = "done"
MainOnceWaitDo(s, k) == [s EXCEPT !.iv[k].m = "sel2"]

MainAfterTimeoutEn(s, k) == s.iv[k].m = "sel2" /\ s.iv[k].r \in {"sendok", "senderr"}
MainAfterTimeoutDo(s, k) == [s EXCEPT !.iv[k].m = "ret", !.iv[k].out = "InvokeTimeout", !.iv[k].r = "off"]

\* observable: the caller has its outcome
CallerReturnEn(s, c) == s.busy[c] # 0 /\ s.iv[s.busy[c]].m = "ret"
CallerReturnDo(s, c) == [s EXCEPT !.iv[s.busy[c]].m = "gone", !.busy[c] = 0]

----------------------------------------------------------------------------
(* Server.Reset goroutines (one per Reset call, x = <<k, "T"|"F">>):       *)
(* sandboxContext.Reset (HandleReset, then Clear), server Clear (drain     *)
(* completion channel, Release), hand-over on ResetDoneChan                *)

\* HandleReset: cancel flows first (without the mutex) ...
ResetCancelEn(s, x) == s.rs[x].pc = "r0"
ResetCancelDo(s, x) == [CancelFlows(s, "reset") EXCEPT !.rs[x].pc = "r1"]

\* ... then take the handler mutex and shut the environment down
ResetLockEn(s, x) == s.rs[x].pc = "r1" /\ s.hm = "free" /\ s.pcS.pc = "off"
ResetLockDo(s, x) ==
    [s EXCEPT !.hm = "reset", !.rs[x].pc = "r2",
              !.pcS = [pc |-> "s0", by |-> <<"reset", x>>, rtp |-> <<>>, todo |-> {}, reason |-> s.rs[x].reason,
                       dl |-> s.rs[x].dl, tterm |-> 0, treap |-> 0]]

\* shutdown finished: generation++, mutex released
ResetFinishEn(s, x) == s.rs[x].pc = "r2" /\ s.pcS.pc = "done" /\ s.pcS.by = <<"reset", x>>
ResetFinishDo(s, x) ==
    [s EXCEPT !.gen = @ + 1, !.hm = IF "clear-outside-mutex" \in AsFound THEN "free" ELSE @,
              !.rs[x].pc = "r3", !.pcS = PcSOff]

\* reinitialize: appctx keys, renderer, initDone, registration service, flows.  The repaired code runs it
\* before HandleReset releases the handler mutex; as found ("clear-outside-mutex", F-C03-1) it ran after
\* the release, so that a handler queued on the mutex could start on state about to be cleared.
ResetClearEn(s, x) == s.rs[x].pc = "r3" /\ Free(s, "rapid.reinitialize")
ResetClearDo(s, x) ==
    [s EXCEPT !.hm = IF "clear-outside-mutex" \in AsFound THEN @ ELSE "free",
              !.firstFatal = "none", !.renderer = "none", !.initDone = FALSE, !.rel = 0,
              !.rt = "none", !.rtFlag = FALSE, !.ag = <<>>, !.regOpen = TRUE, !.cancelOnce = FALSE,
              !.ig = ClearAll(@), !.vg = ClearAll(@), !.rs[x].pc = "r4",
              \* handlers parked on objects of the old generation are never woken again ("orphan"), unless their
              \* object had already been released: those wake up later and render whatever is current ("zombie")
              !.calls = [c \in DOMAIN s.calls |->
                           IF s.calls[c].st # "parked" THEN s.calls[c]
                           ELSE IF (s.calls[c].who = "rt" /\ s.rtFlag)
                                   \/ (s.calls[c].who \in Agents(s) /\ s.ag[s.calls[c].who].flag)
                                THEN [s.calls[c] EXCEPT !.st = "zombie"]
                                ELSE [s.calls[c] EXCEPT !.st = "orphan"]]]

\* Server.Clear: drain InvokeDoneChan, Release; phase idle; the message on ResetDoneChan is taken by
\* whichever Reset call is waiting
ResetServerClearEn(s, x) == s.rs[x].pc = "r4" /\ Free(s, "server.resetBeforeClear")
ResetServerClearDo(s, x) ==
    [Release([s EXCEPT !.srv.done = "empty", !.srv.phase = "idle", !.srv.cached = NoCached]) EXCEPT
        !.rdone = @ + 1, !.rs = [y \in DOMAIN s.rs \ {x} |-> s.rs[y]]]

\* Server.Reset / Server.Shutdown called directly by the platform driver (observable Call / Ret)
DriverResetEn(s) == <<0, "X">> \notin DOMAIN s.rs
DriverResetDo(s, reason, dl) ==
    [s EXCEPT !.rs = [x \in DOMAIN s.rs \cup {<<0, "X">>} |->
                         IF x = <<0, "X">> THEN [pc |-> "r0", reason |-> reason, dl |-> dl] ELSE s.rs[x]],
              !.drv = "reset", !.drvDl = dl]
DriverResetRetEn(s) == s.drv = "reset" /\ s.rdone > 0
DriverResetRetDo(s) == [WrapperRelease([s EXCEPT !.rdone = @ - 1]) EXCEPT !.drv = "idle"]

DriverShutdownEn(s) == s.drv = "idle"
DriverShutdownDo(s) == [s EXCEPT !.drv = "shut"]
DriverShutdownLockEn(s) == s.drv = "shut" /\ s.hm = "free" /\ s.pcS.pc = "off"
DriverShutdownLockDo(s, dl) ==
    [s EXCEPT !.hm = "shutdown", !.drv = "shutw",
              !.pcS = [pc |-> "s0", by |-> <<"driver", 0>>, rtp |-> <<>>, todo |-> {}, reason |-> "spindown", dl |-> dl, tterm |-> 0, treap |-> 0]]
DriverShutdownRetEn(s) == s.drv = "shutw" /\ s.pcS.pc = "done" /\ s.pcS.by = <<"driver", 0>>
DriverShutdownRetDo(s) == [s EXCEPT !.hm = "free", !.drv = "idle", !.srv.phase = "idle", !.pcS = PcSOff]

----------------------------------------------------------------------------
(* handleRestore (snapshot mode): update credentials, restore renderer,    *)
(* release the runtime if it is parked in its restore poll, wait for its   *)
(* next poll with the hook deadline; the first fatal error overrides       *)

SanitisedType(et) == et     \* the harness projection applies the error-type grammar of C20

RestoreBeginEn(s) == s.pcT.pc = "off"
RestoreBeginDo(s, label, dl) ==
    IF s.credVal = "none"
    THEN [s EXCEPT !.pcT = [pc |-> "done", err |-> "errRestoreUpdateCredentials", dl |-> dl]]     \* no credentials to update
    ELSE LET s1 == [s EXCEPT !.credVal = label, !.renderer = "restore"] IN
         IF s.rt # "RestoreReady"
         THEN Emit([s1 EXCEPT !.pcT = [pc |-> "done", err |-> "", dl |-> dl]], TelEv("RestoreRuntimeDone", "", "success", "", 0))
         ELSE [s1 EXCEPT !.rtFlag = TRUE, !.pcT = [pc |-> "wait", err |-> "", dl |-> dl]]

RestoreFinish(s, e0) ==
    LET e == IF s.firstFatal # "none" THEN s.firstFatal ELSE e0
        et == IF s.firstFatal # "none" THEN s.firstFatal ELSE "Runtime.Unknown"
    IN Emit([s EXCEPT !.pcT.pc = "done", !.pcT.err = e],
            IF e = "" THEN TelEv("RestoreRuntimeDone", "", "success", "", 0) ELSE TelEv("RestoreRuntimeDone", "", "error", et, 0))

\* the runtime polled for its next event (or the flow was cancelled)
RestoreAwaitEn(s) == s.pcT.pc = "wait" /\ GCond(s.ig.rtReady)
RestoreAwaitDo(s) ==
    LET o == GOutcome(s.ig.rtReady) IN
    RestoreFinish(s, IF o = "ok" THEN "" ELSE IF o = "usererr" THEN "usererr:" \o s.restoreErrType ELSE o)

\* the hook deadline passed: cancel the init flow
RestoreTimeoutEn(s) == s.pcT.pc = "wait"
RestoreTimeoutDo(s) == RestoreFinish(CancelAllInit(s, "Runtime.RestoreHookUserTimeout"), "Runtime.RestoreHookUserTimeout")

RestoreReturnEn(s) == s.pcT.pc = "done"
RestoreReturnDo(s) == [s EXCEPT !.pcT = [pc |-> "off", err |-> "", dl |-> 0]]

----------------------------------------------------------------------------
(* shutdown(): TERM/KILL/SHUTDOWN choreography (shutdown.go)               *)

ProcAlive(s, p) == p \in DOMAIN s.procs /\ s.procs[p].st = "running"
HasChan(s, p) == p \in DOMAIN s.procs /\ s.procs[p].ch # "gone"
ChanClosed(s, p) == p \in DOMAIN s.procs /\ s.procs[p].ch = "closed"

\* s0: shuttingDown := TRUE, first fatal error forgotten; no agents -> kill the runtime if it was started
ShutBeginEn(s) == s.pcS.pc = "s0"
ShutBeginDo(s) ==
    LET rp == RtProc(s.gen)
        s1 == [s EXCEPT !.shutOn = TRUE, !.firstFatal = "none", !.pcS.rtp = rp]
    IN IF Cardinality(Agents(s)) = 0
       THEN [s1 EXCEPT !.pcS.pc = IF HasChan(s, rp) THEN "killrt0" ELSE "reap"]
       ELSE [s1 EXCEPT !.pcS.pc = IF HasChan(s, rp) THEN "termrt" ELSE "agents"]

\* no agents: Kill(runtime) (observable KillCall/KillRet); a live process dies by signal 9
Kill(s, p) == IF ProcAlive(s, p) THEN [s EXCEPT !.procs[p].st = "dead", !.procs[p].ev = "dying"] ELSE s

ShutKillRuntimeNowEn(s) == s.pcS.pc = "killrt0"
ShutKillRuntimeNowDo(s) == [Kill(s, s.pcS.rtp) EXCEPT !.pcS.pc = "reap"]

\* agents exist: Terminate(runtime) (observable); then wait for its exit or 30% of the time
ShutTermRuntimeEn(s) == s.pcS.pc = "termrt"
ShutTermRuntimeDo(s) == [s EXCEPT !.pcS.pc = "waitrt"]

ShutRuntimeExitedEn(s) == s.pcS.pc = "waitrt" /\ ChanClosed(s, s.pcS.rtp)
ShutRuntimeExitedDo(s) == [s EXCEPT !.pcS.pc = "agents"]

\* the runtime deadline passed: Kill(runtime) (observable)
ShutKillRuntimeLateEn(s) == s.pcS.pc = "waitrt"
ShutKillRuntimeLateDo(s) == [Kill(s, s.pcS.rtp) EXCEPT !.pcS.pc = "agents"]

\* shutdownAgents: SHUTDOWN renderer, agentsAwaitingExit, one goroutine per launched external agent
ShutAgentsEn(s) == s.pcS.pc = "agents"
ShutAgentsDo(s) ==
    LET launched == {a \in Agents(s) : s.ag[a].kind = "ext" /\ HasChan(s, <<a, s.gen>>)}
        subs == {a \in launched : "SHUTDOWN" \in s.ag[a].subs}
    IN [s EXCEPT !.renderer = "shutdown", !.rendReason = s.pcS.reason,
                 !.shutAwait = {<<a, s.gen>> : a \in subs},
                 !.ag = [a \in Agents(s) |-> IF a \in subs THEN [s.ag[a] EXCEPT !.flag = TRUE] ELSE s.ag[a]],
                 !.pcS.todo = {<<a, s.gen>> : a \in launched},
                 !.pcS.pc = "agwait"]

\* an agent goroutine finishes: subscribed -> its process exited, or the deadline passed and it is killed;
\* not subscribed -> killed at once
ShutAgentExitedEn(s, p) == s.pcS.pc = "agwait" /\ p \in s.pcS.todo /\ p \in s.shutAwait /\ ChanClosed(s, p)
ShutAgentExitedDo(s, p) == [s EXCEPT !.pcS.todo = @ \ {p}]

ShutAgentKillEn(s, p) == s.pcS.pc = "agwait" /\ p \in s.pcS.todo
ShutAgentKillDo(s, p) == [Kill(s, p) EXCEPT !.pcS.todo = @ \ {p}]

ShutAgentsJoinedEn(s) == s.pcS.pc = "agwait" /\ s.pcS.todo = {}
ShutAgentsJoinedDo(s) == [s EXCEPT !.pcS.pc = "reap"]

\* clearExitedChannel: all exit notifications handled -> map emptied; or 2 s passed -> map kept
ShutReapedEn(s) == s.pcS.pc = "reap" /\ \A p \in DOMAIN s.procs : s.procs[p].ch \in {"closed", "gone"}
ShutReapedDo(s) ==
    [s EXCEPT !.procs = [p \in DOMAIN s.procs |-> [s.procs[p] EXCEPT !.ch = "gone"]],
              !.shutOn = FALSE, !.pcS.pc = "done"]

ShutReapTimeoutEn(s) == s.pcS.pc = "reap" /\ \E p \in DOMAIN s.procs : s.procs[p].ch = "open"
ShutReapTimeoutDo(s) == [s EXCEPT !.shutOn = FALSE, !.pcS.pc = "done"]

----------------------------------------------------------------------------
(* processes and the events watcher (watchEvents, handleProcessExit)       *)

\* a process exits by itself or is signalled from outside (observable: ProcExit)
ProcExitEn(s, p) == ProcAlive(s, p)
ProcExitDo(s, p) == [s EXCEPT !.procs[p].st = "dead", !.procs[p].ev = "dying"]

\* the supervisor sends the termination event of a dead process (observable: ExitSend); delivery may lag
ExitSendEn(s, p) == p \in DOMAIN s.procs /\ s.procs[p].ev = "dying"
ExitSendDo(s, p) == [s EXCEPT !.procs[p].ev = "pending"]

\* w0: the watcher receives the termination event (observable: ExitDelivered)
WatchRecvEn(s, p) == s.pcW.pc = "idle" /\ p \in DOMAIN s.procs /\ s.procs[p].ev = "pending"
\* (a notification that comes when the reset is over - it had waited its 2 s for it in vain - is handled like any
\*  other: it records a fault and cancels the flows of an environment that has nothing running; the next
\*  initialisation then fails at once.  lateEv marks that state: it is not one the reset left behind)
WatchRecvDo(s, p) ==
    LET s1 == [s EXCEPT !.procs[p].ev = "delivered",
                        !.lateEv = @ \/ (s.gen > 0 /\ s.rs = <<>> /\ s.pcS.pc = "off" /\ s.pcI.pc = "off" /\ s.pcV.pc = "off" /\ ~s.initDone)]
        isRt == p = RtProc(s.gen)
    IN IF s.shutOn
       THEN [s1 EXCEPT !.pcW = [pc |-> "w2", p |-> p, err |-> "nil"]]
       ELSE [s1 EXCEPT !.firstFatal = FF(@, IF isRt THEN "Runtime.ExitError" ELSE "Extension.Crash"),
                       !.pcW = [pc |-> "w2", p |-> p, err |-> IF isRt THEN "rtexit" ELSE "agentexit"]]

\* w2, w3: CancelFlows(err) and handleProcessExit (awaited agent -> Exited / ShutdownFailed; close the
\* exit channel).  The repaired code cancels first; as found ("watch-close-first", F-C08-2) it closed the
\* channel first, which let a waiting reset finish and re-arm the flows before the cancellation arrived.
WHandle(s) ==
    LET p == s.pcW.p
        a == p[1]
        s1 == IF p \in s.shutAwait /\ a \in Agents(s) /\ s.ag[a].st = "Running"
              THEN [s EXCEPT !.ag[a].st = "Exited"]      \* Exited or ShutdownFailed: not distinguished
              ELSE s
    IN IF ~HasChan(s, p) THEN [s1 EXCEPT !.crashed = TRUE, !.pcW.pc = "dead"]   \* log.Panicf
       ELSE [s1 EXCEPT !.procs[p].ch = "closed"]
WCancel(s) == CancelFlows(s, s.pcW.err)
WNext(s, pc) == IF s.pcW.pc = "dead" THEN s
                ELSE IF pc = "idle" THEN [s EXCEPT !.pcW = [pc |-> "idle", p |-> <<>>, err |-> ""]]
                ELSE [s EXCEPT !.pcW.pc = pc]

WatchHandleEn(s) == s.pcW.pc = "w2"
WatchHandleDo(s) == WNext(IF "watch-close-first" \in AsFound THEN WHandle(s) ELSE WCancel(s), "w3")

WatchCancelEn(s) == s.pcW.pc = "w3" /\ Free(s, "watch.flowsCanceled")
WatchCancelDo(s) == WNext(IF "watch-close-first" \in AsFound THEN WCancel(s) ELSE WHandle(s), "idle")

----------------------------------------------------------------------------
(* Runtime API and Extensions API handlers (lambda/rapi/handler)           *)
(*                                                                         *)
(* A call record: who ("rt" or an agent name), api, the arguments the      *)
(* handler looks at, st ("issued" | "parked" | "orphan" | "done"), res.    *)
(* "det": the client went away (its process died) before the answer.      *)

NewCall(who, api) ==
    [who |-> who, api |-> api, st |-> "issued", det |-> FALSE, res |-> NoRes,
     id |-> 0, body |-> NoBody, big |-> FALSE, et |-> "", name |-> "", events |-> {}, idc |-> "ok",
     agen |-> 0, which |-> "", feat |-> FALSE,
     pg |-> 0,           \* trace validation: generation of the calling runtime process (0: not recorded)
     adm |-> FALSE,      \* a slow /response or /error: the headers were handled, the handler is reading the body
     mode |-> "",        \* /response: the response-mode header ("" | "streaming" | "bad" = any other value)
     slow |-> FALSE,     \* the request's body is still on its way (the handler is reading it): no effect yet
     tdone |-> 0]        \* trace validation: time stamp of the last recorded event when the answer was computed

Answer(s, c, r) == [s EXCEPT !.calls[c].st = "done", !.calls[c].res = r]

Forbidden(s, c) == Answer(s, c, Res(403, "InvalidStateTransition"))

\* what the runtime receives when its poll is answered
RenderRt(s) ==
    CASE s.renderer = "invoke"   -> [NoRes EXCEPT !.status = 200, !.kind = "INVOKE", !.inv = s.rendInv, !.reason = "data-ok",
                                                  !.pl = IF s.rendSrc \in DOMAIN s.iv THEN s.iv[s.rendSrc].pl ELSE 0]
      [] s.renderer = "restore"  -> Res(200, "")
      [] s.renderer = "shutdown" -> Res(0, "")        \* the handler panics ("We should SIGTERM runtime"): connection closed
      [] OTHER                   -> Res(500, "InternalServerError")

\* what an extension receives
RenderAg(s) ==
    \* "data-ok": ARN, deadline (arrival + timeout) and trace value are those of the invocation (harness projection)
    CASE s.renderer = "invoke"   -> [NoRes EXCEPT !.status = 200, !.kind = "INVOKE", !.inv = s.rendInv, !.reason = "data-ok"]
      [] s.renderer = "shutdown" -> [NoRes EXCEPT !.status = 200, !.kind = "SHUTDOWN", !.reason = s.rendReason]
      [] s.renderer = "restore"  -> Res(200, "")
      [] OTHER                   -> Res(500, "InternalServerError")

\* ManagedThread.SuspendUnsafe of the runtime: consume the flag or park; after the wake-up the
\* state must still be Ready/Running
RtAfterWake(s, c) ==
    IF s.rt \in {"Ready", "Running"} THEN Answer([s EXCEPT !.rt = "Running"], c, RenderRt(s))
    ELSE Forbidden(s, c)
RtSuspend(s, c) ==
    IF s.rtFlag THEN RtAfterWake([s EXCEPT !.rtFlag = FALSE], c) ELSE [s EXCEPT !.calls[c].st = "parked"]

\* GET /runtime/invocation/next
RtNextEffect(s, c) ==
    CASE s.rt = "none" -> Answer(s, c, Res(0, ""))      \* no runtime registered: nil dereference in the handler
      [] s.rt = "Started" ->
            LET w1 == GWalk(s.ig.rtRestore)
                s1 == [s EXCEPT !.rt = "Ready", !.ig.rtRestore = w1[1]]
            IN IF w1[2] # "ok" THEN Forbidden(s1, c)
               ELSE LET w2 == GWalk(s1.ig.rtReady)
                        s2 == [s1 EXCEPT !.ig.rtReady = w2[1]]
                    IN IF w2[2] # "ok" THEN Forbidden(s2, c) ELSE RtSuspend(s2, c)
      [] s.rt = "Restoring" ->
            LET w == GWalk(s.ig.rtReady)
                s1 == [s EXCEPT !.rt = "Ready", !.ig.rtReady = w[1]]
            IN IF w[2] # "ok" THEN Forbidden(s1, c) ELSE RtSuspend(s1, c)
      [] s.rt = "Ready" -> RtSuspend(s, c)
      [] s.rt = "Running" -> Answer(s, c, RenderRt(s))
      [] s.rt = "ResponseSent" ->
            LET w == GWalk(s.vg.rtReady)
                s1 == [s EXCEPT !.rt = "Ready", !.vg.rtReady = w[1]]
            IN IF w[2] # "ok" THEN Forbidden(s1, c) ELSE RtSuspend(s1, c)
      [] OTHER -> Forbidden(s, c)

\* sendResponseUnsafe for the current reservation; returns <<state', outcome>>
\* outcome: "ok" | "InvalidInvokeID" | "ResponseSent" | "NoStream" | "TooLarge"
SendBody(s, id, body, big) ==
    IF s.srv.inv = 0 \/ id # s.srv.inv THEN <<s, "InvalidInvokeID">>
    ELSE IF s.srv.sent THEN <<s, "ResponseSent">>
    ELSE IF ~s.srv.stream THEN <<s, "NoStream">>
    ELSE IF big THEN <<s, "TooLarge">>
    ELSE <<[s EXCEPT !.srv.sent = TRUE, !.iv[s.srv.sowner].body = body, !.iv[s.srv.sowner].got = TRUE], "ok">>

\* runtime.ResponseSent(): state ResponseSent and arrival at the response latch (an error panics the handler)
RtResponseSent(s, c, okRes) ==
    LET w == GWalk(s.vg.rtResp)
        s1 == [s EXCEPT !.rt = "ResponseSent", !.vg.rtResp = w[1]]
    IN IF w[2] = "ok" THEN Answer(s1, c, okRes) ELSE Answer(s1, c, Res(0, ""))

\* POST /runtime/invocation/{id}/response   and   .../error
RtPostEffect(s, c) ==
    LET call == s.calls[c]
        isResp == call.api = "response"
    IN IF ~call.adm /\ (call.id = 0 \/ call.id # s.srv.inv) THEN Answer(s, c, Res(400, "InvalidRequestID"))
       ELSE IF ~call.adm /\ s.rt = "none" THEN Answer(s, c, Res(0, ""))
       ELSE IF ~call.adm /\ s.rt # "Running" THEN Forbidden(s, c)
       ELSE LET s1 == IF call.adm THEN s ELSE [s EXCEPT !.rt = IF isResp THEN "InvResp" ELSE "InvErrResp"]
                sb == SendBody(s1, call.id, call.body, call.big /\ isResp)
            IN \* a response-mode header other than "streaming": checked after the state transition - the caller is
               \* answered with Runtime.InvalidResponseModeHeader (an empty payload is all a caller of the buffered
               \* interface sees of it), the request with 400; the runtime stays
               \* in InvocationResponse state (the response latch is not reached: the invocation then runs out of time)
               IF isResp /\ call.mode = "bad"
               THEN Answer(SendBody(s1, call.id, NoBody, FALSE)[1], c,
                           Res(400, "InvalidFunctionResponseMode"))
               ELSE
               CASE sb[2] = "ok" -> RtResponseSent(sb[1], c, [NoRes EXCEPT !.status = 202])
                 [] sb[2] = "TooLarge" ->
                       LET sb2 == SendBody(s1, call.id, <<"err", "Function.ResponseSizeTooLarge">>, FALSE)
                       IN RtResponseSent(sb2[1], c, Res(413, "RequestEntityTooLarge"))
                 [] sb[2] \in {"InvalidInvokeID", "ResponseSent"} -> Answer(s1, c, Res(400, "InvalidRequestID"))
                 [] OTHER -> Answer(s1, c, Res(0, ""))       \* RenderInteropError panics

\* a /response or /error whose body arrives slowly: the request-id middleware and the handler's state transition act
\* when the headers are there - a refusal is decided then, and from then on the runtime is in the "response" state
\* (a second submission is refused with 403 while the first is still uploading); the body is read afterwards
RtPostHeaders(s, c) ==
    LET call == s.calls[c]
        isResp == call.api = "response"
    IN IF call.id = 0 \/ call.id # s.srv.inv THEN Answer(s, c, Res(400, "InvalidRequestID"))
       ELSE IF s.rt = "none" THEN Answer(s, c, Res(0, ""))
       ELSE IF s.rt # "Running" THEN Forbidden(s, c)
       ELSE IF isResp /\ call.mode = "bad" THEN RtPostEffect(s, c)       \* refused before the body is looked at
       ELSE [s EXCEPT !.rt = IF isResp THEN "InvResp" ELSE "InvErrResp", !.calls[c].adm = TRUE]

\* POST /runtime/init/error
RtInitErrorEffect(s, c) ==
    LET call == s.calls[c] IN
    IF s.rt = "none" THEN Answer(s, c, Res(0, ""))
    ELSE IF s.rt = "Restoring"
    THEN Answer([CancelAllInit(s, "usererr") EXCEPT !.rt = "RestoreError", !.restoreErrType = call.et], c, [NoRes EXCEPT !.status = 202])
    ELSE IF s.rt # "Started" THEN Forbidden(s, c)
    ELSE LET s1 == [s EXCEPT !.rt = "InitError"] IN
         IF s.srv.phase = "invoking"
         THEN \* suppressed init: the error goes to the caller of the invocation in flight
              LET sb == SendBody(s1, s.srv.inv, call.body, call.big) IN
              CASE sb[2] = "ok" -> Answer(sb[1], c, [NoRes EXCEPT !.status = 202])
                [] sb[2] \in {"InvalidInvokeID", "ResponseSent"} -> Answer(s1, c, Res(400, "InvalidRequestID"))
                [] OTHER -> Answer(s1, c, Res(0, ""))
         \* the payload is cached whatever its size; one above the response size limit reaches the caller of the next
         \* invocation as the too-large error (tree after the fix of F-C14-1; as found the emulator panicked there)
         ELSE Answer([s1 EXCEPT !.srv.cached = IF call.big THEN <<"err", "Function.ResponseSizeTooLarge">> ELSE call.body], c,
                     [NoRes EXCEPT !.status = 202])

\* identifier middleware + lookup for extension calls: "" when the agent is known
AgentIdProblem(s, call) ==
    CASE call.idc = "missing" -> "Extension.MissingExtensionIdentifier"
      [] call.idc = "invalid" -> "Extension.InvalidExtensionIdentifier"
      [] call.idc = "unknown" -> "Extension.UnknownExtensionIdentifier"
      [] call.who \notin Agents(s) -> "Extension.UnknownExtensionIdentifier"
      [] s.ag[call.who].rid # call.agen -> "Extension.UnknownExtensionIdentifier"   \* identifier of an earlier registration
      [] OTHER -> ""

AgAfterWake(s, c, a) ==
    IF s.ag[a].st = "Ready" THEN Answer([s EXCEPT !.ag[a].st = "Running"], c, RenderAg(s))
    ELSE Answer(s, c, Res(403, "Extension.InvalidExtensionState"))
AgSuspend(s, c, a) ==
    IF s.ag[a].flag THEN AgAfterWake([s EXCEPT !.ag[a].flag = FALSE], c, a) ELSE [s EXCEPT !.calls[c].st = "parked"]

\* GET /extension/event/next
AgNextEffect(s, c) ==
    LET call == s.calls[c]
        a == call.who
        pb == AgentIdProblem(s, call)
    IN IF pb # "" THEN Answer(s, c, Res(403, pb))
       ELSE CASE s.ag[a].st = "Registered" ->
                    AgSuspend([s EXCEPT !.ag[a].st = "Ready", !.ig.agReady = GWalk(@)[1]], c, a)
              [] s.ag[a].st = "Running" ->
                    AgSuspend([s EXCEPT !.ag[a].st = "Ready", !.vg.agReady = GWalk(@)[1]], c, a)
              [] OTHER -> Answer(s, c, Res(403, "Extension.InvalidExtensionState"))

\* POST /extension/register
RegisterEffect(s, c) ==
    LET call == s.calls[c]
        n == call.name
        \* function name, version and handler of the init request; account id only if the feature was asked for
        okRes == [NoRes EXCEPT !.status = 200, !.reason = "meta-ok", !.kind = IF call.feat THEN "acct" ELSE ""]
    IN IF n = "" THEN Answer(s, c, Res(403, "Extension.InvalidExtensionName"))
       ELSE IF call.big THEN Answer(s, c, Res(403, "InvalidRequestFormat"))      \* unparsable body
       ELSE IF n \in Agents(s) /\ s.ag[n].kind = "ext"
       THEN IF ~(call.events \subseteq {"INVOKE", "SHUTDOWN"}) THEN Answer(s, c, Res(403, "Extension.InvalidEventType"))
            ELSE IF s.ag[n].st # "Started" THEN Answer(s, c, Res(403, "Extension.InvalidExtensionState"))
            ELSE Answer([s EXCEPT !.ag[n].st = "Registered", !.ag[n].subs = call.events, !.ag[n].rid = c,
                                  !.ig.extReg = GWalk(@)[1]], c, okRes)
       ELSE IF ~(call.events \subseteq {"INVOKE"}) THEN Answer(s, c, Res(403, "Extension.InvalidEventType"))
            ELSE IF ~s.regOpen THEN Answer(s, c, Res(403, "Extension.RegistrationClosed"))
            ELSE IF Cardinality(Agents(s)) >= MaxAgents THEN Answer(s, c, Res(403, "Extension.TooManyExtensions"))
            ELSE IF n \in Agents(s) THEN Answer(s, c, Res(403, "Extension.InvalidExtensionState"))
            ELSE Answer(WithAgent(s, n, [NewAgent("int", "Registered", "", s.gen) EXCEPT !.subs = call.events, !.rid = c]), c, okRes)

\* POST /extension/init/error  and  /extension/exit/error
ExtErrorEffect(s, c) ==
    LET call == s.calls[c]
        a == call.who
        idp == IF call.idc \in {"missing", "invalid"} THEN AgentIdProblem(s, call) ELSE ""
        pb == AgentIdProblem(s, call)
        from == IF call.which = "init" THEN {"Registered"} ELSE {"Registered", "Ready", "Running"}
        target == IF call.which = "init" THEN "InitError" ELSE "ExitError"
        fatal == IF call.which = "init" THEN "Extension.InitError" ELSE "Extension.ExitError"
        okRes == [NoRes EXCEPT !.status = 202]
    IN IF idp # "" THEN Answer(s, c, Res(403, idp))
       ELSE IF call.et = "" THEN Answer(s, c, Res(403, "Extension.MissingHeader"))
       ELSE IF pb # "" THEN Answer(s, c, Res(403, pb))
       ELSE IF s.ag[a].st \in from
       THEN Answer([s EXCEPT !.ag[a].st = target, !.ag[a].err = call.et, !.firstFatal = FF(@, fatal)], c, okRes)
       ELSE IF s.ag[a].st = target THEN Answer([s EXCEPT !.firstFatal = FF(@, fatal)], c, okRes)
       ELSE Answer(s, c, Res(403, "Extension.InvalidExtensionState"))

\* GET /runtime/restore/next (snapshot mode only)
RtRestoreAfterWake(s, c) ==
    IF s.rt \in {"RestoreReady", "Restoring"} THEN Answer([s EXCEPT !.rt = "Restoring"], c, RenderRt(s))
    ELSE Forbidden(s, c)
RtRestoreNextEffect(s, c) ==
    IF ~s.caching THEN Answer(s, c, Res(404, ""))
    ELSE IF s.rt = "none" THEN Answer(s, c, Res(0, ""))
    ELSE IF s.rt # "Started" THEN Forbidden(s, c)
    ELSE LET w == GWalk(s.ig.rtRestore)
             s1 == [s EXCEPT !.rt = "RestoreReady", !.ig.rtRestore = w[1]]
         IN IF w[2] # "ok" THEN Forbidden(s1, c)
            ELSE IF s1.rtFlag THEN RtRestoreAfterWake([s1 EXCEPT !.rtFlag = FALSE], c)
            ELSE [s1 EXCEPT !.calls[c].st = "parked", !.calls[c].which = "restore"]

\* POST /runtime/restore/error (snapshot mode only): the sanitised error type cancels the init flow
RtRestoreErrorEffect(s, c) ==
    IF ~s.caching THEN Answer(s, c, Res(404, ""))
    ELSE IF s.rt = "none" THEN Answer(s, c, Res(0, ""))
    ELSE IF s.rt # "Restoring" THEN Forbidden(s, c)
    ELSE Answer([CancelAllInit(s, "usererr") EXCEPT !.rt = "RestoreError", !.restoreErrType = s.calls[c].et], c,
                [NoRes EXCEPT !.status = 202])

\* GET /credentials (snapshot mode only): served only for the per-instance token
CredsEffect(s, c) ==
    IF s.caching /\ s.calls[c].idc = "ok" /\ s.credVal # "none"
    THEN Answer(s, c, [NoRes EXCEPT !.status = 200, !.reason = s.credVal])
    ELSE Answer(s, c, Res(404, ""))

\* Routing (rapi/router.go, rapi/server.go).  A request that is not one of the typed calls above is answered from
\* the route table: call.name is the route (or "unknown"), call.which the HTTP method.  Unknown routes and the
\* snapshot routes outside snapshot mode do not exist (404), a known route with another method is 405, /ping is
\* 200, and the Logs / Telemetry subscription routes are stubs (the emulator has no telemetry service): 202 with
\* a "not supported" error document, whoever asks and whatever the state.  None of them changes the state.
RouteMethod ==
    [ping |-> "GET", next |-> "GET", response |-> "POST", error |-> "POST", initerror |-> "POST",
     restorenext |-> "GET", restoreerror |-> "POST", creds |-> "GET",
     register |-> "POST", extnext |-> "GET", extiniterror |-> "POST", extexiterror |-> "POST",
     logs |-> "PUT", telemetry |-> "PUT"]
SnapshotRoutes == {"restorenext", "restoreerror", "creds"}
RouteEffect(s, c) ==
    LET r == s.calls[c].name
        m == s.calls[c].which
    IN IF r \notin DOMAIN RouteMethod THEN Answer(s, c, Res(404, ""))
       ELSE IF r \in SnapshotRoutes /\ ~s.caching THEN Answer(s, c, Res(404, ""))
       ELSE IF m # RouteMethod[r] THEN Answer(s, c, Res(405, ""))
       ELSE CASE r = "ping" -> Answer(s, c, Res(200, ""))
              [] r = "logs" -> Answer(s, c, Res(202, "Logs.NotSupported"))
              [] r = "telemetry" -> Answer(s, c, Res(202, "Telemetry.NotSupported"))
              [] OTHER -> Answer(s, c, Res(0, ""))      \* the typed calls have their own effects; not issued as "route"

\* a request whose body arrives slowly: the handler has the headers (the request id passed the middleware) and is
\* reading the body; the effect on the caller is computed when the body is complete (BodyDone); what the handler does
\* before reading (RtPostHeaders) happens when the headers are there
BodyDoneEn(s, c) == c \in DOMAIN s.calls /\ s.calls[c].st = "issued" /\ s.calls[c].slow
BodyDoneDo(s, c) == [s EXCEPT !.calls[c].slow = FALSE]

\* every request to the Runtime API router passes the runtime-release middleware first: the identity string of the first
\* one is kept until reinitialize forgets it (extension, credentials, logs and telemetry routes are other routers)
NoteRelease(s, c) ==
    IF s.calls[c].who = "rt" /\ s.calls[c].pg # 0 /\ s.calls[c].api # "creds" /\ s.rel = 0 THEN [s EXCEPT !.rel = s.calls[c].pg] ELSE s

HeadersEn(s, c) ==
    c \in DOMAIN s.calls /\ s.calls[c].st = "issued" /\ s.calls[c].slow /\ ~s.calls[c].adm /\ s.calls[c].api \in {"response", "error"}
HeadersDo(s, c) == RtPostHeaders(NoteRelease(s, c), c)

EffectEn(s, c) ==
    /\ c \in DOMAIN s.calls /\ s.calls[c].st = "issued" /\ ~s.calls[c].slow
    /\ (s.calls[c].api = "response" => Free(s, "server.sendResponse"))
    /\ (s.calls[c].api = "error" => Free(s, "server.sendErrorResponse"))
    /\ ((s.calls[c].api = "register" /\ ~(s.calls[c].name \in Agents(s) /\ s.ag[s.calls[c].name].kind = "ext"))
            => Free(s, "core.newInternalAgent"))
EffectDo(s0, c) ==
    LET s == NoteRelease(s0, c)
        call == s.calls[c] IN
    CASE call.api = "next" /\ call.who = "rt" -> RtNextEffect(s, c)
      [] call.api = "next" -> AgNextEffect(s, c)
      [] call.api \in {"response", "error"} -> RtPostEffect(s, c)
      [] call.api = "initerror" -> RtInitErrorEffect(s, c)
      [] call.api = "restorenext" -> RtRestoreNextEffect(s, c)
      [] call.api = "restoreerror" -> RtRestoreErrorEffect(s, c)
      [] call.api = "creds" -> CredsEffect(s, c)
      [] call.api = "register" -> RegisterEffect(s, c)
      [] call.api = "exterror" -> ExtErrorEffect(s, c)
      [] call.api = "route" -> RouteEffect(s, c)
      [] OTHER -> Answer(s, c, Res(404, ""))

\* a parked poll is released (Release: flag := TRUE, Signal)
WakeEn(s, c) ==
    /\ c \in DOMAIN s.calls
    /\ \/ s.calls[c].st = "zombie"
       \/ /\ s.calls[c].st = "parked"
          /\ IF s.calls[c].who = "rt" THEN s.rtFlag
             ELSE s.calls[c].who \in Agents(s) /\ s.ag[s.calls[c].who].flag
WakeDo(s, c) ==
    IF s.calls[c].st = "zombie"
    THEN Answer(s, c, IF s.calls[c].who = "rt" THEN RenderRt(s) ELSE RenderAg(s))    \* acts on objects nobody refers to
    ELSE IF s.calls[c].who = "rt" /\ s.calls[c].which = "restore" THEN RtRestoreAfterWake([s EXCEPT !.rtFlag = FALSE], c)
    ELSE IF s.calls[c].who = "rt" THEN RtAfterWake([s EXCEPT !.rtFlag = FALSE], c)
    ELSE AgAfterWake([s EXCEPT !.ag[s.calls[c].who].flag = FALSE], c, s.calls[c].who)

\* the client reads the answer (observable)
ReturnEn(s, c) == c \in DOMAIN s.calls /\ s.calls[c].st = "done" /\ ~s.calls[c].det
ReturnDo(s, c) == DropCall(s, c)

\* the client's process is dead: its call ends with a network error; the handler may still run
AbortEn(s, c) == c \in DOMAIN s.calls /\ ~s.calls[c].det
AbortDo(s, c) == IF s.calls[c].st = "done" THEN DropCall(s, c) ELSE [s EXCEPT !.calls[c].det = TRUE]

\* garbage: answered calls nobody waits for
ReapEn(s, c) == c \in DOMAIN s.calls /\ s.calls[c].st = "done" /\ s.calls[c].det
ReapDo(s, c) == DropCall(s, c)

IssueDo(s, c, call) == [WithCall(s, c, call) EXCEPT !.ncalls = @ + 1]

----------------------------------------------------------------------------
(* Urgency.  Every step below is taken by a goroutine of the emulator as   *)
(* soon as it is enabled (micro- to milliseconds); the remaining steps     *)
(* wait for the environment or for a timer.  A timer may only be observed  *)
(* to fire when no urgent step is enabled: a stall of the emulator is not  *)
(* explained away as "the timer happened to fire first".                   *)

Urgent(s) ==
    \/ InitLockEn(s) \/ CreateExtEn(s) \/ LaunchExtEn(s) \/ LaunchRuntimeEn(s) \/ AfterRuntimeReadyEn(s) \/ AgentsReadyEn(s) \/ InitEndEn(s)
    \/ InvokeLockEn(s) \/ InvokeInitFailedEn(s) \/ DispatchEn(s) \/ AwaitResponseEn(s)
    \/ AwaitRuntimeBackEn(s) \/ AwaitAgentsBackEn(s) \/ InvokeReturnEn(s)
    \/ \E k \in DOMAIN s.iv :
         \/ MainBeginEn(s, k) \/ RelReserveEn(s, k) \/ FioAwaitInitEn(s, k) \/ FioInitFailedEn(s, k) \/ FioShutdownEn(s, k)
         \/ FioShutdownDoneEn(s, k) \/ FioFastInvokeEn(s, k) \/ FiiStartEn(s, k) \/ FiiDefaultErrorEn(s, k)
         \/ FiiSendDoneEn(s, k) \/ RelAwaitEn(s, k) \/ RelAfterResetEn(s, k) \/ MainGotResultEn(s, k)
         \/ MainAfterResetEn(s, k) \/ MainAfterTimeoutEn(s, k) \/ MainOnceWaitEn(s, k) \/ RelOnceWaitEn(s, k)
    \/ \E x \in DOMAIN s.rs :
         \/ ResetCancelEn(s, x) \/ ResetLockEn(s, x) \/ ResetFinishEn(s, x) \/ ResetClearEn(s, x) \/ ResetServerClearEn(s, x)
    \/ DriverShutdownLockEn(s) \/ DriverShutdownRetEn(s) \/ DriverResetRetEn(s) \/ RestoreAwaitEn(s)
    \/ ShutBeginEn(s) \/ ShutKillRuntimeNowEn(s) \/ ShutTermRuntimeEn(s) \/ ShutRuntimeExitedEn(s) \/ ShutAgentsEn(s)
    \/ (\E p \in s.pcS.todo : ShutAgentExitedEn(s, p) \/ (ShutAgentKillEn(s, p) /\ p \notin s.shutAwait))
    \/ ShutAgentsJoinedEn(s) \/ ShutReapedEn(s)
    \/ (\E p \in DOMAIN s.procs : WatchRecvEn(s, p)) \/ WatchHandleEn(s) \/ WatchCancelEn(s)
    \/ \E c \in DOMAIN s.calls : EffectEn(s, c) \/ WakeEn(s, c) \/ HeadersEn(s, c)

----------------------------------------------------------------------------
(* Properties of the listed claims as predicates of a state.  MC_Rapid checks them as invariants of the  *)
(* composite; Trace_Rapid evaluates them in every state of the behaviour that explains a recorded trace *)
(* and reports the names of the ones that failed ("flags").                                             *)

AllDone(s) ==
    \A k \in DOMAIN s.iv : s.iv[k].m \in {"ret", "gone"} /\ s.iv[k].f = "off" /\ s.iv[k].i = "off" /\ s.iv[k].r = "off"

IdleAfterReset(s) ==
    /\ s.gen > 0 /\ s.rs = <<>> /\ s.rdone = 0 /\ s.drv = "idle"
    /\ s.pcI.pc = "off" /\ s.pcV.pc = "off" /\ s.pcS.pc = "off" /\ s.pcT.pc = "off" /\ s.pcW.pc = "idle"
    /\ ~s.initDone /\ s.srv.initOut = "closed" /\ s.srv.inv = 0 /\ s.hm = "free"
    /\ AllDone(s)
    /\ \A p \in DOMAIN s.procs : s.procs[p].st = "dead" /\ s.procs[p].ev \in {"none", "delivered"}
    /\ \A c \in DOMAIN s.calls : s.calls[c].st \in {"done", "orphan"}
    /\ s.ag = <<>>          \* nobody has registered since (the environment may change the fresh state legitimately)

PropHolds(s) ==
    [ \* the emulator never dies from a panic of one of its own goroutines (C07, C10)
      NoCrash |-> ~s.crashed,
      \* C03: the runtime process exists only if every external extension of its generation has registered
      RuntimeAfterRegistrations |->
          ProcAlive(s, RtProc(s.gen)) =>
              \A a \in Agents(s) : (s.ag[a].kind = "ext" /\ s.ag[a].gen = s.gen) => s.ag[a].st # "Started",
      \* C03: while an invocation is being delivered every registered party has polled and registration is closed
      NoEventBeforeAllNext |->
          (s.pcV.pc = "v3" /\ s.renderer = "invoke") =>
              (~s.regOpen /\ \A a \in Agents(s) : s.ag[a].st \notin {"Started", "Registered"}),
      \* C04: an invocation is complete only when the runtime and every INVOKE subscriber have polled again
      DoneOnlyAfterAll |->
          s.pcV.pc = "ok" =>
              (s.rt \in {"Ready", "Running"} /\ \A a \in Subscribed(s, "INVOKE") : s.ag[a].st \in {"Ready", "Running", "ExitError"}),
      \* C01, C05, C10: the orchestrator only ever works for the invocation that holds the reservation
      \* (no "ghost" of an invocation whose caller has been answered and whose reset has completed)
      NoGhostInvoke |-> s.pcV.pc # "off" => s.srv.inv = s.pcV.k,
      \* C01, C02: the reply stream attached to a reservation belongs to the caller that made it
      StreamOwnerIsReserver |-> s.srv.stream => s.srv.sowner = s.srv.inv,
      \* C01: a caller told "success" has been sent a body that the runtime posted
      OkHasBody |->
          \A k \in DOMAIN s.iv : (s.iv[k].m = "ret" /\ s.iv[k].out = "") => s.iv[k].got,
      \* C04, C09: an INVOKE or SHUTDOWN event is only ever answered to an extension whose current registration
      \* subscribed to it (the one history of the recorded finding F-C09-1 is the next predicate)
      EventsOnlyToSubscribers |->
          \A c \in DOMAIN s.calls :
              (s.calls[c].st = "done" /\ s.calls[c].who \in Agents(s) /\ s.calls[c].api = "next"
                 /\ s.calls[c].agen = s.ag[s.calls[c].who].rid /\ s.calls[c].res.status = 200
                 /\ s.calls[c].res.kind \in {"INVOKE", "SHUTDOWN"}
                 /\ ~(s.calls[c].res.kind = "SHUTDOWN" /\ s.calls[c].res.reason = "ReleaseFail"))
              => s.calls[c].res.kind \in s.ag[s.calls[c].who].subs,
      \* C09 (F-C09-1): the SHUTDOWN event of a failure reset only goes to subscribers - also to a poll that had been
      \* released for the INVOKE of the dispatch that failed
      FailResetShutdownOnlyToSubscribers |->
          \A c \in DOMAIN s.calls :
              (s.calls[c].st = "done" /\ s.calls[c].who \in Agents(s) /\ s.calls[c].api = "next"
                 /\ s.calls[c].agen = s.ag[s.calls[c].who].rid /\ s.calls[c].res.status = 200
                 /\ s.calls[c].res.kind = "SHUTDOWN" /\ s.calls[c].res.reason = "ReleaseFail")
              => "SHUTDOWN" \in s.ag[s.calls[c].who].subs,
      \* C18: a restore is never reported successful while the runtime is still parked in its restore poll
      \* (it must have been released, run its hooks and asked for its next event; a runtime still busy with the
      \* hooks of an earlier, failed restore is not covered)
      RestoreOkOnlyAfterHook |->
          (s.pcT.pc = "done" /\ s.pcT.err = "") => s.rt # "RestoreReady",
      \* C08: once a reset is over and nothing of the old generation is still running, nothing of it is left
      ResetIsFresh |->
          (IdleAfterReset(s) /\ ~s.lateEv) =>
              /\ s.ig = InitGates /\ s.vg = InvGates /\ ~s.cancelOnce /\ s.regOpen
              /\ s.rt = "none" /\ s.firstFatal = "none" /\ s.renderer = "none"
              /\ s.srv.cached = NoCached      \* (a completion message left by an old invocation is harmless: it is
                                              \*  recognised by its id and dropped, see RelAwait)
    ]

\* the antecedents of the implications above (vacuity guard: each must be reachable, tools/selftest.py)
PropAntecedent(s) ==
    [ RuntimeAfterRegistrations |-> ProcAlive(s, RtProc(s.gen)) /\ \E a \in Agents(s) : s.ag[a].kind = "ext" /\ s.ag[a].gen = s.gen,
      NoEventBeforeAllNext |-> s.pcV.pc = "v3" /\ s.renderer = "invoke" /\ Agents(s) # {},
      DoneOnlyAfterAll |-> s.pcV.pc = "ok" /\ Subscribed(s, "INVOKE") # {},
      NoGhostInvoke |-> s.pcV.pc # "off",
      StreamOwnerIsReserver |-> s.srv.stream,
      OkHasBody |-> \E k \in DOMAIN s.iv : s.iv[k].m = "ret" /\ s.iv[k].out = "",
      ResetIsFresh |-> IdleAfterReset(s) /\ ~s.lateEv ]

PropViolations(s) == {n \in DOMAIN PropHolds(s) : ~PropHolds(s)[n]}

=============================================================================
