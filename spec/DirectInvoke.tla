---------------------------- MODULE DirectInvoke ----------------------------
(***************************************************************************)
(* Direct-invoke request parsing (lambda/core/directinvoke/directinvoke.go, *)
(* ReceiveDirectInvoke) over its four package variables, and the           *)
(* classification of the response copy (property C17).                     *)
(*                                                                         *)
(* A request is a tuple of header classes.  Sticky = TRUE is the code as   *)
(* found (InvokeResponseMode is assigned only when the header is present,  *)
(* so it keeps the value of an earlier request); Sticky = FALSE is the     *)
(* tree after the fix of F-C17-1 (every optional header takes its default  *)
(* when absent).  Every edge of the state graph is replayed on the real    *)
(* function (engine E2).                                                   *)
(***************************************************************************)
EXTENDS Integers, Sequences, TLC

CONSTANT Sticky

VARIABLES cc,    \* copy case (only used by CopySpec)
          pkg,   \* [max, mode, rate, burst]: the package variables
          out    \* observable result of the last request

Defaults == [max |-> "def", mode |-> "Buffered", rate |-> "def", burst |-> "def"]

MpsClasses   == {"absent", "100", "-1", "bad"}
ModeClasses  == {"absent", "buffered", "streaming", "bad"}
OptClasses   == {"absent", "ok", "bad"}
TokenClasses == {"match", "badid", "badres", "badver"}

Requests == [mps : MpsClasses, irm : ModeClasses, rate : OptClasses, burst : OptClasses, tok : TokenClasses]

Err(p, e) == <<p, [err |-> e, mode |-> "", max |-> "", rate |-> "", burst |-> "", streaming |-> FALSE]>>

\* ReceiveDirectInvoke: <<package variables afterwards, result>>
Receive(p0, r) ==
    LET p1 == [p0 EXCEPT !.max = IF r.mps = "100" THEN "100" ELSE IF r.mps = "-1" THEN "-1" ELSE "def"] IN
    IF r.mps = "bad" THEN Err(p1, "ErrInvalidMaxPayloadSize")
    ELSE IF r.irm = "bad" THEN Err(IF Sticky THEN p1 ELSE [p1 EXCEPT !.mode = "Buffered"], "ErrInvalidInvokeResponseMode")
    ELSE
    LET m  == IF r.irm = "buffered" THEN "Buffered" ELSE IF r.irm = "streaming" THEN "Streaming"
              ELSE IF Sticky THEN p1.mode ELSE "Buffered"
        streaming == p1.max = "-1" \/ m = "Streaming"
        p2 == [p1 EXCEPT !.mode = IF streaming THEN "Streaming" ELSE m]
    IN IF streaming /\ r.rate = "bad" THEN Err([p2 EXCEPT !.rate = "def"], "ErrInvalidResponseBandwidthRate")
       ELSE
       LET p3 == IF streaming THEN [p2 EXCEPT !.rate = IF r.rate = "ok" THEN "r1" ELSE "def"] ELSE p2 IN
       IF streaming /\ r.burst = "bad" THEN Err([p3 EXCEPT !.burst = "def"], "ErrInvalidResponseBandwidthBurstSize")
       ELSE
       LET p4 == IF streaming THEN [p3 EXCEPT !.burst = IF r.burst = "ok" THEN "b1" ELSE "def"] ELSE p3 IN
       IF r.tok = "badid" THEN Err(p4, "ErrInvalidInvokeID")
       ELSE IF r.tok = "badres" THEN Err(p4, "ErrInvalidReservationToken")
       ELSE IF r.tok = "badver" THEN Err(p4, "ErrInvalidFunctionVersion")
       ELSE <<p4, [err |-> "", mode |-> p4.mode, max |-> p4.max,
                   rate |-> IF streaming THEN p4.rate ELSE "", burst |-> IF streaming THEN p4.burst ELSE "",
                   streaming |-> streaming]>>

Init == cc = <<>> /\ pkg = Defaults /\ out = [err |-> "", mode |-> "", max |-> "", rate |-> "", burst |-> "", streaming |-> FALSE]

Req(r) == /\ r \in Requests
          /\ UNCHANGED cc
          /\ pkg' = Receive(pkg, r)[1]
          /\ out' = Receive(pkg, r)[2]

Next == \E r \in Requests : Req(r)
Spec == Init /\ [][Next]_<<pkg, out, cc>>

\* "optional headers take their defaults whenever absent, independently of earlier requests":
\* the result of a request is the one it would have on a freshly started emulator
HistoryIndependent == [][\A r \in Requests : Req(r) => out' = Receive(Defaults, r)[2]]_<<pkg, out, cc>>

----------------------------------------------------------------------------
(* classification of the response copy: size of the function response,     *)
(* per-request limit ("unlimited" = -1), copy error / reset                *)
Forwarded(size, limit) == IF limit # -1 /\ size > limit THEN limit + 1 ELSE size
\* failAt: position at which reading the function response fails (-1: never); a failure behind the cut is never seen
\* stallAt: position at which the runtime stops sending without closing (-1: never): the copy is blocked reading
\* until a reset interrupts it (the connection of the runtime is closed); the answer ends Truncated with
\* everything read so far forwarded; a stall behind the cut is never seen either
CopyClass(size, limit, failAt, stallAt) ==
    IF stallAt >= 0 /\ stallAt < Forwarded(size, limit) THEN "Truncated"
    ELSE IF failAt >= 0 /\ failAt < Forwarded(size, limit) THEN "Truncated"
    ELSE IF limit # -1 /\ size > limit THEN "Oversized"
    ELSE "Complete"
Stalls(size, limit, stallAt) == stallAt >= 0 /\ stallAt < Forwarded(size, limit)

\* enumeration of copy cases (each state is one test case for SendDirectInvokeResponse)
CopyCases == [size : {0, 1, 99, 100, 101, 102, 5000}, limit : {100, -1}, failAt : {-1, 0, 50, 100, 101, 2500}, chunk : {1, 7, 64, 4096},
              stallAt : {-1, 0, 50, 2500},
              \* the response mode the function declared: it changes which trailers are announced, never the classification -
              \* and the classification trailer announced when the request was received must still be delivered
              fnMode : {"", "streaming"}]
CopyInit == /\ \E k \in CopyCases :
                 cc = [k EXCEPT !.failAt = IF k.failAt >= k.size \/ k.stallAt # -1 THEN -1 ELSE k.failAt,
                                !.stallAt = IF k.stallAt >= k.size THEN -1 ELSE k.stallAt]
            /\ pkg = Defaults
            /\ out = [class |-> CopyClass(cc.size, cc.limit, cc.failAt, cc.stallAt),
                      forwarded |-> IF Stalls(cc.size, cc.limit, cc.stallAt) THEN cc.stallAt ELSE Forwarded(cc.size, cc.limit),
                      reset |-> Stalls(cc.size, cc.limit, cc.stallAt)]
CopySpec == CopyInit /\ [][UNCHANGED <<cc, pkg, out>>]_<<cc, pkg, out>>
=============================================================================
