SPECIFICATION Spec
CONSTANTS
  MaxLen = 6
  FLens = {1, 2, 3, 20, 100, 119, 120, 125}
INVARIANTS ReleaseBounded ETypeTotal
CHECK_DEADLOCK FALSE
