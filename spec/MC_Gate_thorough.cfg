SPECIFICATION Spec
CONSTANTS
  Waiters = {1, 2, 3}
  Counts = {0, 1, 2, 3, 65535}
  Errs = {"nil", "e1", "e2"}
  MaxOps = 8
  SetCountBroadcasts = TRUE
INVARIANTS TypeOK ArrivedLeCount NoLostWakeup DoneHasResult
PROPERTIES ReturnIsJustified CancelSticky RefusalIsNoOp
VIEW View
CHECK_DEADLOCK FALSE
