------------------------------ MODULE FrontEnd ------------------------------
(***************************************************************************)
(* The HTTP front end of the emulator (cmd/aws-lambda-rie/handlers.go):    *)
(* InvokeHandler around the sandbox (Init / Invoke).                        *)
(*                                                                         *)
(* One request j:  read body and decode the client context header (500 on  *)
(* a bad header) -> if the package variable initDone is false: InitHandler *)
(* (sandbox.Init), then initDone := TRUE -> sandbox.Invoke with a proxy     *)
(* writer -> map the error to the HTTP answer.                              *)
(*                                                                         *)
(* The sandbox is the environment here: Invoke returns one of the outcome  *)
(* classes of rapidcore.Server.Invoke together with the body class it wrote *)
(* to the proxy.  What Rapid.tla says about those outcomes is checked by    *)
(* Trace_Rapid on the same recorded run; this module only specifies what    *)
(* the front end makes of them.                                            *)
(***************************************************************************)
EXTENDS Naturals, Sequences, FiniteSets, TLC

CONSTANTS FEAsFound,     \* TRUE: the code as found (initDone tested and set without the mutex), F-C10-2
          Reqs,          \* request ordinals
          Outcomes,      \* outcome classes Invoke may return
          Bodies         \* body classes the sandbox may have written to the proxy

VARIABLES lock,          \* holder of initMutex (0 = free)
          initDone,      \* the package variable
          inits,         \* number of sandbox.Init calls made so far
          req,           \* j -> [pc, badctx, out, body, status, sent]
          lines          \* j -> the lines the handler has printed for the request (START / END / REPORT)

vars == <<lock, initDone, inits, req, lines>>

NoReq == [pc |-> "none", badctx |-> FALSE, out |-> "", body |-> "empty", status |-> 0, sent |-> "empty",
          ran |-> FALSE]       \* ran: this request ran InitHandler

\* the answer the handler writes for an outcome of sandbox.Invoke (out = "" : nil error)
\* body "proxy" = whatever the sandbox wrote to the ResponseWriterProxy
Answer(out) ==
    CASE out = "" -> [status |-> 200, body |-> "proxy"]
      [] out = "AlreadyReserved" -> [status |-> 400, body |-> "empty"]
      [] out = "InternalServerError" -> [status |-> 500, body |-> "empty"]
      [] out = "InitDoneFailed" -> [status |-> 502, body |-> "proxy"]
      [] out = "InvokeDoneFailed" -> [status |-> 502, body |-> "proxy"]
      [] out = "ReserveReservationDone" -> [status |-> 504, body |-> "empty"]
      [] out = "InvokeReservationDone" -> [status |-> 504, body |-> "empty"]
      [] out = "ReleaseReservationDone" -> [status |-> 504, body |-> "empty"]
      [] out = "AlreadyInvocating" -> [status |-> 400, body |-> "empty"]
      [] out = "InvokeTimeout" -> [status |-> 200, body |-> "timeout-text"]
      \* errors the switch does not answer (ErrNotReserved, ErrAlreadyReplied have empty cases; anything
      \* else has no case at all): the handler falls through to the success path
      [] OTHER -> [status |-> 200, body |-> "proxy"]

\* Log lines.  "START RequestId: <id> Version: <v>" is printed right before sandbox.Invoke; "END RequestId: <id>"
\* and "REPORT RequestId: <id> [Init Duration] Duration ..." when the invocation is over: after a nil error, after
\* the timeout, and on the paths that fall through the switch - not for the outcomes the handler answers with
\* an early return.  The REPORT line carries the init duration iff this request ran InitHandler.
Reports(out) == out \notin {"AlreadyReserved", "InternalServerError", "InitDoneFailed", "ReserveReservationDone",
                            "AlreadyInvocating", "InvokeReservationDone", "InvokeResponseAlreadyWritten",
                            "InvokeDoneFailed", "ReleaseReservationDone"}

Init == lock = 0 /\ initDone = FALSE /\ inits = 0 /\ req = [j \in Reqs |-> NoReq] /\ lines = [j \in Reqs |-> <<>>]

Arrive(j, bad) ==
    /\ req[j].pc = "none"
    /\ req' = [req EXCEPT ![j] = [NoReq EXCEPT !.pc = "decoded", !.badctx = bad]]
    /\ UNCHANGED <<lock, initDone, inits, lines>>

\* bad base64 in X-Amz-Client-Context: 500, the sandbox is never called
RejectHeader(j) ==
    /\ req[j].pc = "decoded" /\ req[j].badctx
    /\ req' = [req EXCEPT ![j].pc = "answered", ![j].status = 500, ![j].sent = "empty"]
    /\ UNCHANGED <<lock, initDone, inits, lines>>

\* initMutex.Lock(); if !initDone { InitHandler(...) ; initDone = true }; initMutex.Unlock()
\* three steps: lock + test, call, assign + unlock (as found: no mutex)
TestInitDone(j) ==
    /\ req[j].pc = "decoded" /\ ~req[j].badctx
    /\ FEAsFound \/ lock = 0
    /\ req' = [req EXCEPT ![j].pc = IF initDone THEN "invoke" ELSE "init"]
    /\ lock' = IF FEAsFound \/ initDone THEN lock ELSE j
    /\ UNCHANGED <<initDone, inits, lines>>

CallInit(j) ==
    /\ req[j].pc = "init"
    /\ inits' = inits + 1
    /\ req' = [req EXCEPT ![j].pc = "initret", ![j].ran = TRUE]
    /\ UNCHANGED <<lock, initDone, lines>>

InitReturns(j) ==
    /\ req[j].pc = "initret"
    /\ initDone' = TRUE
    /\ lock' = IF FEAsFound THEN lock ELSE 0
    /\ req' = [req EXCEPT ![j].pc = "invoke"]
    /\ UNCHANGED <<inits, lines>>

CallInvoke(j) ==
    /\ req[j].pc = "invoke"
    /\ req' = [req EXCEPT ![j].pc = "invoking"]
    /\ lines' = [lines EXCEPT ![j] = Append(@, "START")]
    /\ UNCHANGED <<lock, initDone, inits>>

InvokeReturns(j, out, body) ==
    /\ req[j].pc = "invoking"
    /\ req' = [req EXCEPT ![j].pc = "mapped", ![j].out = out, ![j].body = body]
    /\ UNCHANGED <<lock, initDone, inits, lines>>

Respond(j) ==
    /\ req[j].pc = "mapped"
    /\ LET a == Answer(req[j].out) IN
       req' = [req EXCEPT ![j].pc = "answered", ![j].status = a.status,
                          ![j].sent = IF a.body = "proxy" THEN req[j].body ELSE a.body]
    /\ lines' = IF Reports(req[j].out)
                THEN [lines EXCEPT ![j] = @ \o <<"END", IF req[j].ran THEN "REPORT+init" ELSE "REPORT">>]
                ELSE lines
    /\ UNCHANGED <<lock, initDone, inits>>

Next ==
    \E j \in Reqs :
        \/ \E bad \in BOOLEAN : Arrive(j, bad)
        \/ RejectHeader(j) \/ TestInitDone(j) \/ CallInit(j) \/ InitReturns(j) \/ CallInvoke(j)
        \/ \E out \in Outcomes, body \in Bodies : InvokeReturns(j, out, body)
        \/ Respond(j)

Spec == Init /\ [][Next]_vars

----------------------------------------------------------------------------
\* every request is answered from its own outcome: success carries the body the sandbox wrote for it,
\* a refusal or a timeout carries none of it
AnswerFromOwnOutcome ==
    \A j \in Reqs : req[j].pc = "answered" /\ ~req[j].badctx =>
        /\ req[j].status = Answer(req[j].out).status
        /\ (req[j].out = "" => req[j].sent = req[j].body)
        /\ (req[j].out \in {"AlreadyReserved", "InvokeTimeout"} => req[j].sent # req[j].body \/ req[j].body = "empty")

\* C10 at the front door: the sandbox is initialised at most once, however many requests arrive together.
\* With FEAsFound = TRUE TLC violates this with two requests (both test initDone before either sets it):
\* finding F-C10-2, repaired in /repo by 96ffeac (initMutex).
InitAtMostOnce == inits <= 1

\* the log of a request is well-formed: nothing before START, END and REPORT together and at most once, only after
\* START; at most one request reports an init duration
LogWellFormed ==
    /\ \A j \in Reqs : lines[j] \in {<<>>, <<"START">>, <<"START", "END", "REPORT">>, <<"START", "END", "REPORT+init">>}
    /\ \A j \in Reqs : req[j].pc \in {"none", "decoded", "init", "initret", "invoke"} => lines[j] = <<>>
    /\ (~FEAsFound => Cardinality({j \in Reqs : Len(lines[j]) = 3 /\ lines[j][3] = "REPORT+init"}) <= 1)

\* no request calls Invoke before Init has been called
InvokeAfterInit == \A j \in Reqs : req[j].pc \in {"invoking", "mapped"} => inits >= 1
=============================================================================
