SPECIFICATION TraceSpec
CONSTANTS
  ExtOrder <- TraceExtOrder
  Callers = {1, 2, 3}
  MaxAgents = 10
  AsFound = {}
  SetCountBroadcasts = TRUE
  HWM = 1000000000
  Slack = 1500
  RestoreSlack = 500
  AnswerSlack = 1000
CONSTRAINT HighWater
POSTCONDITION TraceAccepted
CHECK_DEADLOCK FALSE
