SPECIFICATION TraceSpec
CONSTRAINT HighWater
CHECK_DEADLOCK FALSE
