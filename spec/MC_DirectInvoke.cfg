SPECIFICATION Spec
CONSTANT Sticky = FALSE
PROPERTY HistoryIndependent
CHECK_DEADLOCK FALSE
