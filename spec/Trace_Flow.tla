----------------------------- MODULE Trace_Flow -----------------------------
(***************************************************************************)
(* Trace validation of the flow objects of lambda/core/flow.go - the init   *)
(* flow (four latches) and the invoke flow (three latches) - against the    *)
(* latch operators of GateOps: how the flows compose their latches (which   *)
(* latch an operation acts on, that InitializeBarriers re-arms and Clear    *)
(* clears *every* latch, that Cancel reaches all of them).  A sequential    *)
(* driver (harness/gate/flow.go) runs random programs over the whole method *)
(* set on the real objects; awaits are made by waiter goroutines; after     *)
(* every operation the driver lets the woken waiters return and records a   *)
(* Settled event.  Events (all fields logged):                              *)
(*   New kind                                   a fresh flow object          *)
(*   Op op, gate, n, err, res                   operation on one latch       *)
(*   All op, err                                operation on every latch     *)
(*   Await w, gate, out                         out = "parked" or the result *)
(*   AwaitReturn w, gate, res                   a parked waiter returned     *)
(*   Settled                                    nobody whose condition holds *)
(*                                              is still parked              *)
(***************************************************************************)
EXTENDS GateOps, Json, Sequences, FiniteSets, TLC

VARIABLES l, g, parked

TraceLog == ndJsonDeserialize("trace.ndjson")
T == TraceLog[l]
Is(e) == l <= Len(TraceLog) /\ T.e = e
Adv == l' = l + 1

Max == 65535
NewFlow(kind) ==
    IF kind = "invoke"
    THEN [rtReady |-> GNew(1), rtResp |-> GNew(1), agReady |-> GNew(Max)]
    ELSE [rtReady |-> GNew(1), extReg |-> GNew(0), agReady |-> GNew(Max), rtRestore |-> GNew(1)]

TNew == Is("New") /\ g' = NewFlow(T.kind) /\ parked' = {} /\ Adv

OpResult(op, r, n) ==
    CASE op = "walk" -> GWalk(r)
      [] op = "setcount" -> GSetCount(r, n)

TOp ==
    /\ Is("Op") /\ T.gate \in DOMAIN g
    /\ LET x == OpResult(T.op, g[T.gate], T.n) IN
       /\ x[2] = T.res
       /\ g' = [g EXCEPT ![T.gate] = x[1]]
    /\ UNCHANGED parked /\ Adv

AllResult(op, r, e) ==
    CASE op = "initbarriers" -> GReset(r)[1]
      [] op = "cancel" -> GCancel(r, e)[1]
      [] op = "clear" -> GClear(r)[1]

TAll ==
    /\ Is("All")
    /\ g' = [k \in DOMAIN g |-> AllResult(T.op, g[k], T.err)]
    /\ UNCHANGED parked /\ Adv

TAwait ==
    /\ Is("Await") /\ T.gate \in DOMAIN g
    /\ IF T.out = "parked"
       THEN ~GCond(g[T.gate]) /\ parked' = parked \cup {<<T.w, T.gate>>}
       ELSE GCond(g[T.gate]) /\ T.out = GOutcome(g[T.gate]) /\ UNCHANGED parked
    /\ UNCHANGED g /\ Adv

TAwaitReturn ==
    /\ Is("AwaitReturn") /\ <<T.w, T.gate>> \in parked
    /\ GCond(g[T.gate]) /\ T.res = GOutcome(g[T.gate])
    /\ parked' = parked \ {<<T.w, T.gate>>}
    /\ UNCHANGED g /\ Adv

TSettled ==
    /\ Is("Settled")
    /\ \A x \in parked : ~GCond(g[x[2]])
    /\ UNCHANGED <<g, parked>> /\ Adv

TraceInit == l = 1 /\ g = NewFlow("invoke") /\ parked = {} /\ TLCSet(1, 1)
TraceNext == TNew \/ TOp \/ TAll \/ TAwait \/ TAwaitReturn \/ TSettled
TraceSpec == TraceInit /\ [][TraceNext]_<<l, g, parked>>

HighWater ==
    /\ IF l > TLCGet(1) THEN PrintT(<<"hw", l>>) /\ TLCSet(1, l) ELSE TRUE
    /\ IF l = Len(TraceLog) + 1 THEN TLCSet("exit", TRUE) ELSE TRUE
=============================================================================
