SPECIFICATION Spec
CONSTANTS
  FEAsFound = TRUE
  Reqs = {1, 2}
  Outcomes = {""}
  Bodies = {"b1"}
INVARIANTS InitAtMostOnce
CHECK_DEADLOCK FALSE
