------------------------------- MODULE GateQ -------------------------------
(***************************************************************************)
(* Quiescent quotient of Gate: every operator step is followed by the      *)
(* re-tests of all waiters it woke (the re-tests commute and read the same *)
(* latch record, so the result is deterministic).  This is the graph the   *)
(* replayer walks edge by edge on real core.NewGate objects: after an      *)
(* operation returned, every real waiter goroutine is either parked in     *)
(* sync.Cond.Wait or has returned, which is exactly a GateQ state.         *)
(***************************************************************************)
EXTENDS Gate

Settle(ws, wr, r) ==
    <<[w \in Waiters |-> IF ws[w] = "woken"
                         THEN (IF GCond(r) THEN "done" ELSE "parked")
                         ELSE ws[w]],
      [w \in Waiters |-> IF ws[w] = "woken" /\ GCond(r) THEN GOutcome(r) ELSE wr[w]]>>

QApply(t) ==
    LET ws1 == IF t[3] THEN Wake(wst) ELSE wst
        st  == Settle(ws1, wres, t[1])
    IN  /\ g' = t[1]
        /\ last' = t[2]
        /\ wst' = st[1]
        /\ wres' = st[2]
        /\ UNCHANGED ops

QRegister(n) == g.count + n <= MaxU16 /\ g.count + n \in Counts /\ QApply(GRegister(g, n))
\* (each action is a conjunction so that TLC labels graph edges with its name and argument)
QSetCount(n) == n \in Counts /\ QApply(GSetCount(g, n))
QReset       == TRUE /\ QApply(GReset(g))
\* arrivals are bounded in the walk (the latch with count 65535 would count for ever)
QWalkThrough == (g.arrived < 4 \/ g.arrived = g.count) /\ QApply(GWalk(g))
QCancel(e)   == e \in Errs /\ QApply(GCancel(g, e))
QClear       == TRUE /\ QApply(GClear(g))
QAwait(w)    == wst[w] = "idle" /\ Test(w)
QAgain(w)    == /\ wst[w] = "done"
                /\ wst'  = [wst  EXCEPT ![w] = "idle"]
                /\ wres' = [wres EXCEPT ![w] = "none"]
                /\ last' = "void"
                /\ UNCHANGED <<g, ops>>

QNext ==
    \/ \E n \in 1..2 : QRegister(n)
    \/ \E n \in Counts : QSetCount(n)
    \/ QReset
    \/ QWalkThrough
    \/ \E e \in Errs : QCancel(e)
    \/ QClear
    \/ \E w \in Waiters : QAwait(w) \/ QAgain(w)

QSpec == Init /\ [][QNext]_vars

\* in a quiescent state nobody is "woken"
QNoWoken == \A w \in Waiters : wst[w] # "woken"
=============================================================================
