SPECIFICATION TraceSpec
CONSTANTS
  FEAsFound = FALSE
  Reqs = {1, 2, 3, 4, 5, 6, 7, 8}
  Outcomes = {}
  Bodies = {}
  HWM = 0
CONSTRAINT HighWater
POSTCONDITION TraceAccepted
CHECK_DEADLOCK FALSE
