-------------------------- MODULE Trace_Supervisor --------------------------
(***************************************************************************)
(* Black-box trace validation of a process supervisor against Supervisor   *)
(* (property C19).  Events: ExecCall/Ret, TermCall/Ret, KillCall/Ret (with *)
(* the harness's observation whether the process and its children are      *)
(* gone), Event (termination event received on the Events channel), End.   *)
(***************************************************************************)
EXTENDS Supervisor, Json, Sequences

VARIABLES l, fake

TraceLog == ndJsonDeserialize("trace.ndjson")
T == TraceLog[l]
Is(e) == l <= Len(TraceLog) /\ T.e = e
Adv == l' = l + 1 /\ UNCHANGED <<steps, fake>>
NextT == IF l <= Len(TraceLog) THEN TraceLog[l].t ELSE 0

TBegin == Is("Begin") /\ sv' = <<>> /\ fake' = T.fake /\ l' = l + 1 /\ UNCHANGED steps

TExecCall == Is("ExecCall") /\ ExecCallEn(sv, T.name) /\ sv' = ExecCallDo(sv, T.name, T.beh, T.delay, T.t) /\ Adv
TExecRet  == Is("ExecRet") /\ T.err = "" /\ ExecRetEn(sv, T.name) /\ sv' = ExecRetDo(sv, T.name) /\ Adv

TTermCall == Is("TermCall") /\ sv' = TermCallDo(sv, T.name) /\ Adv
\* Terminate does not wait for the process; unknown names are refused
TTermRet ==
    /\ Is("TermRet")
    /\ IF T.name \in DOMAIN sv THEN T.err = "" /\ T.dur <= 300 ELSE T.err = "no_such_entity"
    /\ UNCHANGED sv /\ Adv

\* the driver's observation 400 ms after a Terminate (made for behaviours with group members none of which ignores
\* SIGTERM, at least 150 ms after the start): SIGTERM went to the whole group, so the members are gone -
\* whether or not the leader was still there when the call was made
TTermObs ==
    /\ Is("TermObs")
    /\ (T.name \in DOMAIN sv /\ sv[T.name].beh \notin Ignoring) => T.gone
    /\ UNCHANGED sv /\ Adv

TKillCall == Is("KillCall") /\ sv' = KillCallDo(sv, T.name, T.past) /\ Adv
TKillRet ==
    /\ Is("KillRet")
    /\ IF T.name \notin DOMAIN sv
       THEN T.err = "no_such_entity"                       \* unknown names fail
       ELSE \/ /\ T.err = ""                                 \* success: the process (and its group) is gone
               /\ sv[T.name].st = "dead" /\ T.gone
            \/ /\ T.err = "error" /\ T.past                  \* deadline in the past and the process still there
               /\ sv[T.name].cause # "kill"
               /\ ~sv[T.name].pkd                            \* (a process whose exit had been reported is gone: Kill succeeds)
    /\ sv' = KillRetDo(sv, T.name, T.past) /\ Adv

\* exactly one event per process, carrying its true status
TEvent ==
    /\ Is("Event")
    /\ EventEn(sv, T.name)
    /\ T.status = StatusOf(sv[T.name], sv[T.name].cause, fake)
    /\ sv' = EventDo(sv, T.name) /\ Adv

\* at the end (all processes were killed, 3 s grace) every started process has produced its event
TEnd ==
    /\ Is("End")
    /\ \A n \in DOMAIN sv : sv[n].st = "dead" /\ sv[n].events = 1
    /\ UNCHANGED sv /\ Adv

\* a process dies; by itself only once its delay has elapsed.  A death is a silent step; it is taken lazily, right
\* before the recorded event that needs it (the termination event of that process, the return of a Kill of it,
\* the end of the run): the causes that are possible only become more with time, except "killed", which the
\* return of the Kill forces - so nothing is lost, and a burst of many processes stays linear to validate
NeedsDead(n) == (Is("Event") /\ T.name = n) \/ (Is("KillRet") /\ T.name = n) \/ Is("End")
Die ==
    /\ l <= Len(TraceLog)
    /\ \E n \in DOMAIN sv, c \in {"natural", "term", "kill"} :
         /\ NeedsDead(n)
         /\ DieEn(sv, n, c, fake)
         /\ (c = "natural" => NextT >= sv[n].t0 + sv[n].delay - 5)
         /\ sv' = DieDo(sv, n, c)
    /\ UNCHANGED <<l, steps, fake>>

TraceInit == l = 1 /\ sv = <<>> /\ steps = 0 /\ fake = FALSE /\ TLCSet(1, 1)
TraceNext == TBegin \/ TExecCall \/ TExecRet \/ TTermCall \/ TTermRet \/ TTermObs \/ TKillCall \/ TKillRet \/ TEvent \/ TEnd \/ Die
TraceSpec == TraceInit /\ [][TraceNext]_<<sv, steps, l, fake>>

HighWater ==
    /\ IF l > TLCGet(1) THEN PrintT(<<"hw", l>>) /\ TLCSet(1, l) ELSE TRUE
    /\ IF l = Len(TraceLog) + 1 THEN TLCSet("exit", TRUE) ELSE TRUE
=============================================================================
