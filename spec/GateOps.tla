------------------------------ MODULE GateOps ------------------------------
(***************************************************************************)
(* Pure operators of the counting latch of lambda/core/gates.go.  Each     *)
(* maps a latch record [count, arrived, canceled, err] to                  *)
(*   <<new record, Go return value, broadcast?>>                           *)
(* and is used both by the standalone latch specification (Gate.tla) and   *)
(* by the composite (Rapid.tla), so that there is one definition of what a *)
(* latch does.                                                             *)
(***************************************************************************)
EXTENDS Integers

CONSTANT SetCountBroadcasts  \* TRUE: SetCount wakes waiters when arrived = count (tree after fix F-C11-1)

MaxU16 == 65535

(* Pure latch operators: <<record', return value, broadcast>>              *)

\* init: the count the latch was constructed with (restored by Clear; tree after the fix of F-C08-3)
GNew(c) == [count |-> c, init |-> c, arrived |-> 0, canceled |-> FALSE, err |-> "nil"]

GCond(r) == r.arrived = r.count \/ r.canceled

\* what AwaitGateCondition returns once GCond holds
GOutcome(r) == IF r.canceled
               THEN (IF r.err = "nil" THEN "ErrGateCanceled" ELSE r.err)
               ELSE "ok"

GRegister(r, n) == <<[r EXCEPT !.count = @ + n], "void", FALSE>>

GSetCount(r, n) ==
    IF n < r.arrived
    THEN <<r, "ErrGateIntegrity", FALSE>>
    ELSE <<[r EXCEPT !.count = n], "ok", SetCountBroadcasts /\ r.arrived = n>>

GReset(r) == <<IF r.canceled THEN r ELSE [r EXCEPT !.arrived = 0], "void", FALSE>>

GWalk(r) ==
    IF r.arrived = r.count
    THEN <<r, "ErrGateIntegrity", FALSE>>
    ELSE LET r2 == [r EXCEPT !.arrived = @ + 1]
         IN  <<r2, "ok", r2.arrived = r2.count>>

GCancel(r, e) == <<[r EXCEPT !.canceled = TRUE, !.err = e], "void", TRUE>>

GClear(r) == <<[r EXCEPT !.canceled = FALSE, !.arrived = 0, !.err = "nil", !.count = r.init], "void", r.init = 0>>

=============================================================================
