--------------------------- MODULE FrontEndProof ---------------------------
(***************************************************************************)
(* TLAPS proof, for any number of concurrent requests, that the repaired    *)
(* front end (FEAsFound = FALSE: initDone tested and set under initMutex)   *)
(* initialises the sandbox at most once and never calls Invoke before Init  *)
(* has returned (property C10 at the front door, finding F-C10-2).          *)
(***************************************************************************)
EXTENDS FrontEnd, TLAPS

ASSUME Assumptions == FEAsFound = FALSE /\ 0 \notin Reqs /\ Outcomes \subseteq STRING /\ Bodies \subseteq STRING

Inv ==
    /\ lock \in Reqs \cup {0}
    /\ initDone \in BOOLEAN
    /\ inits \in Nat
    /\ req \in [Reqs -> [pc : STRING, badctx : BOOLEAN, out : STRING, body : STRING, status : Nat, sent : STRING, ran : BOOLEAN]]
    /\ \A j \in Reqs : req[j].pc \in {"init", "initret"} <=> lock = j
    /\ lock # 0 => ~initDone
    /\ inits = IF initDone \/ (\E j \in Reqs : req[j].pc = "initret") THEN 1 ELSE 0
    /\ \A j \in Reqs : req[j].pc \in {"invoke", "invoking", "mapped"} => initDone

LEMMA AnswerType == \A o : Answer(o).status \in Nat /\ Answer(o).body \in STRING
  BY DEF Answer

LEMMA InitInv == Init => Inv
  BY Assumptions DEF Init, Inv, NoReq

LEMMA NextInv == Inv /\ [Next]_vars => Inv'
<1> SUFFICES ASSUME Inv, [Next]_vars PROVE Inv'
    OBVIOUS
<1> USE Assumptions DEF Inv
<1>1. ASSUME NEW j \in Reqs, NEW bad \in BOOLEAN, Arrive(j, bad) PROVE Inv'
    BY <1>1 DEF Arrive, NoReq
<1>2. ASSUME NEW j \in Reqs, RejectHeader(j) PROVE Inv'
    BY <1>2 DEF RejectHeader
<1>3. ASSUME NEW j \in Reqs, TestInitDone(j) PROVE Inv'
    BY <1>3 DEF TestInitDone
<1>4. ASSUME NEW j \in Reqs, CallInit(j) PROVE Inv'
    BY <1>4 DEF CallInit
<1>5. ASSUME NEW j \in Reqs, InitReturns(j) PROVE Inv'
    BY <1>5 DEF InitReturns
<1>6. ASSUME NEW j \in Reqs, CallInvoke(j) PROVE Inv'
    BY <1>6 DEF CallInvoke
<1>7. ASSUME NEW j \in Reqs, NEW out \in Outcomes, NEW body \in Bodies, InvokeReturns(j, out, body) PROVE Inv'
    BY <1>7 DEF InvokeReturns
<1>8. ASSUME NEW j \in Reqs, Respond(j) PROVE Inv'
  <2> DEFINE a == Answer(req[j].out)
  <2> DEFINE snt == IF a.body = "proxy" THEN req[j].body ELSE a.body
  <2>1. a.status \in Nat /\ a.body \in STRING
      BY AnswerType
  <2>2. snt \in STRING
      BY <2>1
  <2>3. /\ req[j].pc = "mapped"
        /\ req' = [req EXCEPT ![j].pc = "answered", ![j].status = a.status, ![j].sent = snt]
        /\ UNCHANGED <<lock, initDone, inits>>
      BY <1>8 DEF Respond
  <2> HIDE DEF a, snt
  <2> QED
      BY <2>1, <2>2, <2>3
<1>9. ASSUME UNCHANGED vars PROVE Inv'
    BY <1>9 DEF vars
<1> QED
    BY <1>1, <1>2, <1>3, <1>4, <1>5, <1>6, <1>7, <1>8, <1>9 DEF Next

THEOREM Safety == Spec => [](InitAtMostOnce /\ InvokeAfterInit)
<1>1. Init /\ [][Next]_vars => []Inv
    BY InitInv, NextInv, PTL
<1>2. Inv => InitAtMostOnce /\ InvokeAfterInit
    BY DEF Inv, InitAtMostOnce, InvokeAfterInit
<1> QED
    BY <1>1, <1>2, PTL DEF Spec
=============================================================================
