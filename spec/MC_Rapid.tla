------------------------------ MODULE MC_Rapid ------------------------------
(***************************************************************************)
(* Model-checking harness for the composite Rapid (engine E1): the         *)
(* environment (runtime, extensions, callers, processes, timers) takes any *)
(* of its actions; the emulator's own steps are urgent: the environment    *)
(* moves only when no internal step is enabled (run to completion), except *)
(* for the invoke timer, which may also fire while the emulator is busy    *)
(* when RaceTimer = TRUE (that is where the races live).                   *)
(* Bounds: MaxCalls API calls, MaxInv invocations, MaxExits process exits,  *)
(* MaxTimers timer expiries.                                               *)
(***************************************************************************)
EXTENDS Rapid

CONSTANTS MaxCalls, MaxInv, MaxExits, MaxTimers, MaxShutdowns, MaxRestores, RaceTimer,
          ExtSubs,       \* subscription sets an external extension may register with
          IntNames,      \* names of internal extensions that may register
          Misuse,        \* BOOLEAN: also stale / unknown ids, init/error, second registrations
          PromptHelpers  \* BOOLEAN: the helper goroutines of Server.Invoke take their enabled steps before a
                         \* reset goroutine takes its next one (they are woken by channel sends and do no I/O)

VARIABLES nexit, ntimer, nshut, nrest

MCExtOrder == <<"e1">>
MCExtSubs == {{"INVOKE"}, {"INVOKE", "SHUTDOWN"}}

mcvars == <<st, nexit, ntimer, nshut, nrest>>

Files == ExtUniverse

\* snapshot (init-caching) mode iff restores are part of the configuration
MCInit == st = [State0(Files, {}) EXCEPT !.caching = (MaxRestores > 0)] /\ nexit = 0 /\ ntimer = 0 /\ nshut = 0 /\ nrest = 0

Quiet == ~Urgent(st) /\ ~RestoreReturnEn(st)      \* (the answer of a restore request is returned at once)

\* ---- environment: API calls
NewRt(api, id, body) == [NewCall("rt", api) EXCEPT !.id = id, !.body = body]

LiveInvs == {k \in DOMAIN st.iv : st.iv[k].m # "gone"}

RtCalls ==
    {NewCall("rt", "next")}
    \cup (IF MaxRestores > 0 THEN {NewCall("rt", "restorenext"), [NewCall("rt", "restoreerror") EXCEPT !.et = "Runtime.Hook"]} ELSE {})
    \cup {NewRt("response", k, <<"r", "ok">>) : k \in (IF st.srv.inv # 0 THEN {st.srv.inv} ELSE {})}
    \cup {NewRt("error", k, <<"r", "err">>) : k \in (IF st.srv.inv # 0 THEN {st.srv.inv} ELSE {})}
    \cup (IF Misuse THEN {NewRt("response", k, <<"r", "stale">>) : k \in {j \in DOMAIN st.iv : j # st.srv.inv}}
                         \cup {NewRt("response", 0, <<"r", "unknown">>), NewRt("initerror", 0, <<"r", "init">>)}
                         \* a response-mode header that is refused: the caller is answered, the runtime cannot go on
                         \cup {[NewRt("response", k, <<"r", "badmode">>) EXCEPT !.mode = "bad"] : k \in (IF st.srv.inv # 0 THEN {st.srv.inv} ELSE {})}
          ELSE {})

AgentCalls ==
    UNION {{[NewCall(a, "register") EXCEPT !.name = a, !.events = ev] : ev \in ExtSubs} : a \in Files}
    \cup {[NewCall(a, "register") EXCEPT !.name = a, !.events = {"INVOKE"}] : a \in IntNames}
    \cup {[NewCall(a, "next") EXCEPT !.agen = st.ag[a].rid] : a \in {x \in Agents(st) : st.ag[x].rid # 0}}
    \cup (IF Misuse THEN {[NewCall(a, "exterror") EXCEPT !.agen = st.ag[a].rid, !.which = "exit", !.et = "Extension.X"] :
                               a \in {x \in Agents(st) : st.ag[x].rid # 0}}
          ELSE {})

\* a client has at most one outstanding call (polls included)
Busy(who) == \E c \in DOMAIN st.calls : st.calls[c].who = who /\ ~st.calls[c].det

\* only processes that exist can call (the runtime once launched in this generation, extensions likewise)
CanCall(who) ==
    IF who = "rt" THEN ProcAlive(st, RtProc(st.gen))
    ELSE IF who \in Files THEN ProcAlive(st, <<who, st.gen>>)
    ELSE TRUE

Issue ==
    /\ Quiet /\ st.ncalls < MaxCalls
    /\ \E call \in RtCalls \cup AgentCalls :
         /\ ~Busy(call.who) /\ CanCall(call.who)
         /\ st' = IssueDo(st, st.ncalls + 1, call)
    /\ UNCHANGED <<nexit, ntimer, nshut, nrest>>

Return ==
    /\ \E c \in DOMAIN st.calls : ReturnEn(st, c) /\ st' = ReturnDo(st, c)
    /\ UNCHANGED <<nexit, ntimer, nshut, nrest>>

\* ---- environment: callers, platform
PlatformInit == Quiet /\ StartInitEn(st) /\ st' = StartInitDo(st) /\ UNCHANGED <<nexit, ntimer, nshut, nrest>>

\* (the front end calls Invoke only after Init has returned: FrontEnd!InvokeAfterInit)
Invoke ==
    /\ Quiet /\ st.ninv < MaxInv /\ st.srv.initOut # "unset"
    /\ \E c \in Callers : CallerStartEn(st, c) /\ st' = CallerStartDo(st, c, st.ninv + 1, FALSE)
    /\ UNCHANGED <<nexit, ntimer, nshut, nrest>>

InvokeReturns ==
    /\ \E c \in Callers : CallerReturnEn(st, c) /\ st' = CallerReturnDo(st, c)
    /\ UNCHANGED <<nexit, ntimer, nshut, nrest>>

\* ---- environment: processes and timers
Exit ==
    /\ Quiet /\ nexit < MaxExits
    /\ \E p \in DOMAIN st.procs : ProcExitEn(st, p) /\ st' = ProcExitDo(st, p)
    /\ nexit' = nexit + 1 /\ UNCHANGED <<ntimer, nshut, nrest>>

\* processes die when asked to (exit on TERM); the supervisor then sends the event
Supervisor ==
    /\ \/ \E p \in DOMAIN st.procs : ExitSendEn(st, p) /\ st' = ExitSendDo(st, p)
       \/ ShutTermRuntimeEn(st) /\ st' = (LET s1 == ShutTermRuntimeDo(st) IN
                                          IF ProcAlive(s1, s1.pcS.rtp) THEN ProcExitDo(s1, s1.pcS.rtp) ELSE s1)
       \/ ShutKillRuntimeNowEn(st) /\ st' = ShutKillRuntimeNowDo(st)
       \/ \E p \in st.pcS.todo : ShutAgentKillEn(st, p) /\ p \notin st.shutAwait /\ st' = ShutAgentKillDo(st, p)
       \/ \E p \in st.pcS.todo : ShutAgentKillEn(st, p) /\ p \in st.shutAwait /\ Quiet /\ st' = ShutAgentKillDo(st, p)
       \/ LaunchExtEn(st) /\ st' = LaunchExtDo(st)
       \/ LaunchRuntimeEn(st) /\ st' = LaunchRuntimeDo(st)
    /\ UNCHANGED <<nexit, ntimer, nshut, nrest>>

Timer ==
    /\ ntimer < MaxTimers
    /\ (RaceTimer \/ Quiet)
    /\ \E k \in DOMAIN st.iv : MainTimeoutEn(st, k) /\ st' = MainTimeoutDo(st, k)
    /\ ntimer' = ntimer + 1 /\ UNCHANGED <<nexit, nshut, nrest>>

\* the platform driver shuts the environment down (Server.Shutdown)
DrvShutdown ==
    /\ Quiet /\ nshut < MaxShutdowns /\ DriverShutdownEn(st)
    /\ st' = DriverShutdownDo(st)
    /\ nshut' = nshut + 1 /\ UNCHANGED <<nexit, ntimer, nrest>>

\* the platform restores a snapshot (Server.Restore): new credentials, restore hooks of the runtime
DrvRestore ==
    /\ Quiet /\ nrest < MaxRestores /\ st.srv.initOut # "unset" /\ RestoreBeginEn(st)
    /\ st' = RestoreBeginDo(st, IF nrest = 0 THEN "A" ELSE "B", 0)
    /\ nrest' = nrest + 1 /\ UNCHANGED <<nexit, ntimer, nshut>>

\* the hook deadline (a timer): only when the emulator has nothing else to do
RestoreTimer ==
    /\ Quiet /\ ntimer < MaxTimers /\ RestoreTimeoutEn(st)
    /\ st' = RestoreTimeoutDo(st)
    /\ ntimer' = ntimer + 1 /\ UNCHANGED <<nexit, nshut, nrest>>

\* ---- the emulator's internal steps (same list as Trace_Rapid!Internal)
Step(en, do) == en /\ st' = do

HelperEnabled ==
    \/ \E k \in DOMAIN st.iv :
        \/ RelReserveEn(st, k) \/ FioAwaitInitEn(st, k) \/ FioInitFailedEn(st, k) \/ FioShutdownEn(st, k) \/ FioShutdownDoneEn(st, k)
        \/ FioFastInvokeEn(st, k) \/ FiiStartEn(st, k) \/ FiiDefaultErrorEn(st, k) \/ FiiSendDoneEn(st, k)
        \/ RelAwaitEn(st, k) \/ RelAfterResetEn(st, k) \/ RelOnceWaitEn(st, k)
    \* ... and so are polls that have been released: the handler goroutine renders at once
    \/ \E c \in DOMAIN st.calls : WakeEn(st, c)

ResetMayStep == PromptHelpers => ~HelperEnabled

OtherInternal ==
    /\ TRUE
    /\ \/ Step(InitLockEn(st), InitLockDo(st))
       \/ Step(CreateExtEn(st), CreateExtDo(st))
       \/ Step(AfterRuntimeReadyEn(st), AfterRuntimeReadyDo(st))
       \/ Step(AgentsReadyEn(st), AgentsReadyDo(st))
       \/ Step(InitEndEn(st), InitEndDo(st))
       \/ Step(InvokeLockEn(st), InvokeLockDo(st))
       \/ Step(InvokeInitFailedEn(st), InvokeInitFailedDo(st))
       \/ Step(DispatchEn(st), DispatchDo(st))
       \/ Step(AwaitResponseEn(st), AwaitResponseDo(st))
       \/ Step(AwaitRuntimeBackEn(st), AwaitRuntimeBackDo(st))
       \/ Step(AwaitAgentsBackEn(st), AwaitAgentsBackDo(st))
       \/ Step(InvokeReturnEn(st), InvokeReturnDo(st))
       \/ \E k \in DOMAIN st.iv :
            \/ Step(MainBeginEn(st, k), MainBeginDo(st, k))
            \/ Step(RelReserveEn(st, k), RelReserveDo(st, k))
            \/ Step(FioAwaitInitEn(st, k), FioAwaitInitDo(st, k))
            \/ Step(FioInitFailedEn(st, k), FioInitFailedDo(st, k))
            \/ Step(FioShutdownEn(st, k), FioShutdownDo(st, k))
            \/ Step(FioShutdownDoneEn(st, k), FioShutdownDoneDo(st, k))
            \/ Step(FioFastInvokeEn(st, k), FioFastInvokeDo(st, k))
            \/ Step(FiiStartEn(st, k), FiiStartDo(st, k))
            \/ Step(FiiDefaultErrorEn(st, k), FiiDefaultErrorDo(st, k))
            \/ Step(FiiSendDoneEn(st, k), FiiSendDoneDo(st, k))
            \/ Step(RelAwaitEn(st, k), RelAwaitDo(st, k))
            \/ Step(RelAfterResetEn(st, k), RelAfterResetDo(st, k))
            \/ Step(MainGotResultEn(st, k), MainGotResultDo(st, k))
            \/ Step(MainAfterResetEn(st, k), MainAfterResetDo(st, k))
            \/ Step(MainOnceWaitEn(st, k), MainOnceWaitDo(st, k))
            \/ Step(RelOnceWaitEn(st, k), RelOnceWaitDo(st, k))
            \/ Step(MainAfterTimeoutEn(st, k), MainAfterTimeoutDo(st, k))
       \/ \E x \in DOMAIN st.rs :
            /\ ResetMayStep
            /\ \/ Step(ResetCancelEn(st, x), ResetCancelDo(st, x))
               \/ Step(ResetLockEn(st, x), ResetLockDo(st, x))
               \/ Step(ResetFinishEn(st, x), ResetFinishDo(st, x))
               \/ Step(ResetClearEn(st, x), ResetClearDo(st, x))
               \/ Step(ResetServerClearEn(st, x), ResetServerClearDo(st, x))
       \/ Step(ResetMayStep /\ DriverShutdownLockEn(st), DriverShutdownLockDo(st, 0))
       \/ Step(DriverShutdownRetEn(st), DriverShutdownRetDo(st))
       \/ Step(ResetMayStep /\ ShutBeginEn(st), ShutBeginDo(st))
       \/ Step(ResetMayStep /\ ShutRuntimeExitedEn(st), ShutRuntimeExitedDo(st))
       \/ Step(ResetMayStep /\ ShutAgentsEn(st), ShutAgentsDo(st))
       \/ \E p \in st.pcS.todo : Step(ShutAgentExitedEn(st, p), ShutAgentExitedDo(st, p))
       \/ Step(ResetMayStep /\ ShutAgentsJoinedEn(st), ShutAgentsJoinedDo(st))
       \/ Step(ResetMayStep /\ ShutReapedEn(st), ShutReapedDo(st))
       \/ Step(RestoreAwaitEn(st), RestoreAwaitDo(st))
       \/ Step(RestoreReturnEn(st), RestoreReturnDo(st))
       \/ \E p \in DOMAIN st.procs : Step(WatchRecvEn(st, p), WatchRecvDo(st, p))
       \/ Step(WatchHandleEn(st), WatchHandleDo(st))
       \/ Step(WatchCancelEn(st), WatchCancelDo(st))
       \/ \E c \in DOMAIN st.calls :
            \/ Step(WakeEn(st, c), WakeDo(st, c))
            \/ Step(ReapEn(st, c), ReapDo(st, c))

\* API handlers are prompt as well: a request that has arrived takes effect before the emulator's
\* long-running goroutines take their next step
EffectPending == \E c \in DOMAIN st.calls : EffectEn(st, c)

Internal ==
    /\ UNCHANGED <<nexit, ntimer, nshut, nrest>>
    /\ \/ \E c \in DOMAIN st.calls : Step(EffectEn(st, c), EffectDo(st, c))
       \/ ~(PromptHelpers /\ EffectPending) /\ OtherInternal

MCNext == DrvRestore \/ RestoreTimer \/ DrvShutdown \/ PlatformInit \/ Issue \/ Return \/ Invoke \/ InvokeReturns \/ Exit \/ Supervisor \/ Timer \/ Internal

MCSpec == MCInit /\ [][MCNext]_mcvars

\* history variables do not distinguish states
\* (tel: output only.  iv[k].msg / .rel: a record of the result rapid handed over, read by nothing but trace validation)
View == <<[st EXCEPT !.tel = <<>>, !.iv = [k \in DOMAIN st.iv |-> [st.iv[k] EXCEPT !.msg = "", !.rel = 0]]], nexit, ntimer, nshut, nrest>>

----------------------------------------------------------------------------
(* the properties (Rapid!PropHolds) as invariants *)
NoCrash == PropHolds(st).NoCrash
RuntimeAfterRegistrations == PropHolds(st).RuntimeAfterRegistrations
NoEventBeforeAllNext == PropHolds(st).NoEventBeforeAllNext
DoneOnlyAfterAll == PropHolds(st).DoneOnlyAfterAll
NoGhostInvoke == PropHolds(st).NoGhostInvoke
StreamOwnerIsReserver == PropHolds(st).StreamOwnerIsReserver
OkHasBody == PropHolds(st).OkHasBody
ResetIsFresh == PropHolds(st).ResetIsFresh
EventsOnlyToSubscribers == PropHolds(st).EventsOnlyToSubscribers
FailResetShutdownOnlyToSubscribers == PropHolds(st).FailResetShutdownOnlyToSubscribers
RestoreOkOnlyAfterHook == PropHolds(st).RestoreOkOnlyAfterHook
\* state constraints that cut off the behaviours of the recorded findings (lib/mcrapid.py)
NoDoubleReset == \A k \in DOMAIN st.iv : ~(<<k, "T">> \in DOMAIN st.rs /\ <<k, "F">> \in DOMAIN st.rs)
KnownFindingsCutOff == NoGhostInvoke /\ NoDoubleReset
\* vacuity guards: each of these "invariants" must be violated (the antecedent is reachable)
Unreach_RuntimeAfterRegistrations == ~PropAntecedent(st).RuntimeAfterRegistrations
Unreach_NoEventBeforeAllNext == ~PropAntecedent(st).NoEventBeforeAllNext
Unreach_DoneOnlyAfterAll == ~PropAntecedent(st).DoneOnlyAfterAll
Unreach_NoGhostInvoke == ~PropAntecedent(st).NoGhostInvoke
Unreach_StreamOwnerIsReserver == ~PropAntecedent(st).StreamOwnerIsReserver
Unreach_OkHasBody == ~PropAntecedent(st).OkHasBody
Unreach_ResetIsFresh == ~PropAntecedent(st).ResetIsFresh
\* the configurations with IntNames # {}: an internal extension is busy with the event of an invocation in flight
Unreach_InternalBusy == ~(\E a \in IntNames : a \in DOMAIN st.ag /\ st.ag[a].st = "Running" /\ st.srv.inv # 0)
=============================================================================
