SPECIFICATION Spec
CONSTANTS
  FEAsFound = FALSE
  Reqs = {1, 2}
  Outcomes = {"", "AlreadyReserved", "InvokeDoneFailed", "InitDoneFailed", "InvokeTimeout", "ReleaseReservationDone", "NotReserved"}
  Bodies = {"empty", "b1", "err"}
INVARIANTS AnswerFromOwnOutcome InvokeAfterInit InitAtMostOnce LogWellFormed
CHECK_DEADLOCK FALSE
