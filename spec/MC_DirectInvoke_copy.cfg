SPECIFICATION CopySpec
CONSTANT Sticky = FALSE
CHECK_DEADLOCK FALSE
