SPECIFICATION QSpec
CONSTANTS
  Waiters = {1, 2, 3}
  Counts = {0, 1, 2, 3, 65535}
  Errs = {"nil", "e1", "e2"}
  MaxOps = 0
  SetCountBroadcasts = TRUE
INVARIANTS TypeOK NoLostWakeup DoneHasResult QNoWoken
CHECK_DEADLOCK FALSE
