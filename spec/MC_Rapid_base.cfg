SPECIFICATION MCSpec
CONSTANTS
  ExtOrder <- MCExtOrder
  Callers = {1}
  MaxAgents = 10
  AsFound = {}
  SetCountBroadcasts = TRUE
  MaxCalls = 7
  MaxInv = 2
  MaxExits = 0
  MaxTimers = 0
  MaxShutdowns = 1
  MaxRestores = 0
  RaceTimer = FALSE
  ExtSubs <- MCExtSubs
  IntNames = {}
  Misuse = FALSE
  PromptHelpers = TRUE
INVARIANTS NoCrash RuntimeAfterRegistrations NoEventBeforeAllNext DoneOnlyAfterAll NoGhostInvoke StreamOwnerIsReserver OkHasBody ResetIsFresh
VIEW View
CHECK_DEADLOCK FALSE
