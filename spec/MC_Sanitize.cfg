SPECIFICATION Spec
CONSTANTS
  MaxLen = 5
  FLens = {1, 3, 20, 119, 125}
INVARIANTS ReleaseBounded ETypeTotal
CHECK_DEADLOCK FALSE
