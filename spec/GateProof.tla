----------------------------- MODULE GateProof -----------------------------
(***************************************************************************)
(* TLAPS proof that the latch invariants of C11 are inductive, for every    *)
(* set of waiters, every set of counts below 2^16 that the operators are    *)
(* applied with, every bound on the number of steps: what TLC checks for     *)
(* 3 waiters and counts 0..3 holds without those bounds.                     *)
(*   ArrivedLeCount  arrivals never exceed the expected count               *)
(*   NoLostWakeup    a parked waiter (no wake-up in flight) implies that    *)
(*                   its condition is false                                 *)
(***************************************************************************)
EXTENDS Gate, TLAPS

ASSUME Assumptions ==
    /\ SetCountBroadcasts = TRUE
    /\ Counts \subseteq Nat
    /\ "nil" \in Errs
    /\ MaxOps \in Nat

GType == g \in [count : Nat, init : Nat, arrived : Nat, canceled : BOOLEAN, err : Errs]
Inv == TypeOK /\ GType /\ ArrivedLeCount /\ NoLostWakeup

LEMMA InitInv == Init => Inv
  BY Assumptions DEF Init, Inv, GType, TypeOK, ArrivedLeCount, NoLostWakeup, GNew, GCond

LEMMA NextInv == Inv /\ [Next]_vars => Inv'
<1> SUFFICES ASSUME Inv, [Next]_vars PROVE Inv'
    OBVIOUS
<1> USE Assumptions DEF Inv, GType, TypeOK, ArrivedLeCount, NoLostWakeup, GCond, Apply, Wake, MaxU16
<1>1. ASSUME NEW n \in 0..2, Register(n) PROVE Inv'
    BY <1>1 DEF Register, GRegister
<1>2. ASSUME NEW n \in Counts, SetCount(n) PROVE Inv'
    BY <1>2 DEF SetCount, GSetCount
<1>3. ASSUME Reset PROVE Inv'
    BY <1>3 DEF Reset, GReset
<1>4. ASSUME WalkThrough PROVE Inv'
    BY <1>4 DEF WalkThrough, GWalk
<1>5. ASSUME NEW e \in Errs, Cancel(e) PROVE Inv'
    BY <1>5 DEF Cancel, GCancel
<1>6. ASSUME Clear PROVE Inv'
    BY <1>6 DEF Clear, GClear
<1>7. ASSUME NEW w \in Waiters, AwaitCall(w) PROVE Inv'
    BY <1>7 DEF AwaitCall, Test, GOutcome
<1>8. ASSUME NEW w \in Waiters, Recheck(w) PROVE Inv'
    BY <1>8 DEF Recheck, Test, GOutcome
<1>9. ASSUME NEW w \in Waiters, Again(w) PROVE Inv'
    BY <1>9 DEF Again
<1>10. ASSUME UNCHANGED vars PROVE Inv'
    BY <1>10 DEF vars
<1> QED
    BY <1>1, <1>2, <1>3, <1>4, <1>5, <1>6, <1>7, <1>8, <1>9, <1>10 DEF Next

THEOREM Safety == Spec => [](ArrivedLeCount /\ NoLostWakeup)
<1>1. Init /\ [][Next]_vars => []Inv
    BY InitInv, NextInv, PTL
<1> QED
    BY <1>1, PTL DEF Spec, Inv
=============================================================================
