---------------------------- MODULE Trace_Rapid ----------------------------
(***************************************************************************)
(* Trace validation (engine E3): is the recorded trace a behaviour of      *)
(* Rapid?  Every line of trace.ndjson (projected by lib/traceprep.py) is   *)
(* one observable action of Rapid with its arguments and results bound;    *)
(* all other actions of Rapid are internal steps taken in between.         *)
(* Several traces are concatenated; a Begin event starts a fresh instance. *)
(*                                                                         *)
(* Acceptance: the high-water mark of the position l (TLC register 1,      *)
(* updated by the CONSTRAINT) equals Len(TraceLog) + 1 (POSTCONDITION).       *)
(* Run with -workers 1.                                                    *)
(***************************************************************************)
EXTENDS Rapid, Json

CONSTANTS Slack,        \* one-sided allowance (ms) for upper time bounds
          RestoreSlack, \* "shortly after" the hook timeout (ms)
          AnswerSlack   \* a computed answer reaches its (live) client within this many ms

VARIABLES l,    \* position of the next trace line
          tp,   \* number of lifecycle events of st.tel already matched
          fl    \* property flags of the scenario being explained

TraceLog == ndJsonDeserialize("trace.ndjson")

\* names the scenarios may use for extension files, in directory order (cfg: ExtOrder <- TraceExtOrder)
TraceExtOrder == <<".e0", "e1", "e2", "e3", "e4", "e5", "e6", "e7", "e8", "e9", "f1", "f2">>

tvars == <<st, l, tp, fl>>

SetOf(seq) == {seq[i] : i \in DOMAIN seq}

T == TraceLog[l]

Is(e) == l <= Len(TraceLog) /\ T.e = e

Adv == l' = l + 1

Proc(t) == <<IF t.pk = "rt" THEN RtBase ELSE t.base, t.gen>>

\* lower bound of "now" for an internal step: the time of the last consumed event
PrevT == IF l > 1 THEN TraceLog[l - 1].t ELSE 0
NextT == IF l <= Len(TraceLog) THEN TraceLog[l].t ELSE PrevT

\* the answer of a call is computed silently; remember when (time of the last recorded event)
StampDone(s2) ==
    [s2 EXCEPT !.calls = [c \in DOMAIN s2.calls |->
        IF s2.calls[c].st = "done" /\ ~(c \in DOMAIN st.calls /\ st.calls[c].st = "done")
        THEN [s2.calls[c] EXCEPT !.tdone = PrevT] ELSE s2.calls[c]]]

\* An answer that has been computed reaches a live client within AnswerSlack ms: a timer of the emulator (function
\* timeout, deadline kill, exit grace, restore hook timeout) cannot be what happens next while an answer computed
\* longer ago than that is still undelivered.  Together with the strict-timer rule (no timer while a step of the
\* emulator - including waking a released poll - is enabled) this makes "the released poll was never answered"
\* unexplainable instead of "answered just before the client was killed".
\* (Not for a large event on its way to the runtime: several MiB to a slow client can legitimately still be in
\*  flight when the function timeout expires.)
LargeDelivery(c) ==
    /\ st.calls[c].who = "rt" /\ st.calls[c].res.kind = "INVOKE"
    /\ st.calls[c].res.inv \in DOMAIN st.iv /\ st.iv[st.calls[c].res.inv].lg
NoStaleAnswer ==
    \A c \in DOMAIN st.calls :
        (st.calls[c].st = "done" /\ ~st.calls[c].det /\ ~LargeDelivery(c)) => NextT - st.calls[c].tdone <= AnswerSlack

----------------------------------------------------------------------------
(* observable actions *)

TBegin ==
    /\ Is("Begin")
    \* T.kind = "afterreset": the trace is the suffix of a run after a completed reset and must be a behaviour
    \* of an instance that is fresh except that the one-time init has been consumed (property C08)
    /\ st' = [State0(SetOf(T.files), SetOf(T.lf)) EXCEPT
                  !.timeoutMs = T.timeoutMs, !.strictTimer = T.strict,
                  !.caching = T.feat,
                  !.srv.initOut = IF T.kind = "afterreset" THEN "closed" ELSE "unset"]
    /\ tp' = 0 /\ Adv

TInitCall ==
    /\ Is("InitCall")
    /\ StartInitEn(st) /\ st' = StartInitDo(st)
    /\ UNCHANGED tp /\ Adv

TExec ==
    /\ Is("Exec")
    /\ T.gen = st.gen
    /\ \/ /\ T.pk = "ext"
          /\ LaunchExtEn(st) /\ Head(st.toExec) = T.base
          /\ LaunchExtExec(st) = (IF T.err = "" THEN "ok" ELSE "launch")
          /\ st' = LaunchExtDo(st)
       \/ /\ T.pk = "rt"
          /\ LaunchRuntimeEn(st)
          /\ LaunchRuntimeExec(st) = (IF T.err = "" THEN "ok" ELSE "launch")
          /\ st' = LaunchRuntimeDo(st)
    /\ UNCHANGED tp /\ Adv

CallOf(t) ==
    [NewCall(t.who, t.api) EXCEPT !.id = t.id, !.body = t.body, !.big = t.big, !.et = t.et, !.name = t.name,
                                  !.events = SetOf(t.events), !.idc = t.idc, !.agen = t.agen, !.which = t.which,
                                  !.feat = t.feat, !.slow = t.slow, !.mode = t.mode,
                                  !.pg = IF t.who = "rt" /\ t.relrec THEN t.gen ELSE 0]

TCall ==
    /\ Is("Call")
    /\ T.cid \notin DOMAIN st.calls
    /\ st' = IssueDo(st, T.cid, CallOf(T))
    /\ UNCHANGED tp /\ Adv

\* the result rapid handed to the server for invocation k (recorded by a wrapper around the sandbox context): its kind and
\* the runtime identity it carries are the ones on record when handleInvoke returned
TInvokeMsg ==
    /\ Is("InvokeMsg")
    /\ T.k \in DOMAIN st.iv
    /\ st.iv[T.k].msg = T.kind
    /\ st.iv[T.k].rel = T.rel
    /\ UNCHANGED <<st, tp>> /\ Adv

\* the rest of a slowly sent request body has arrived
TBodyDone ==
    /\ Is("BodyDone")
    /\ IF BodyDoneEn(st, T.cid) THEN st' = BodyDoneDo(st, T.cid)
       \* refused on its headers: the rest of the body is of no interest to anybody
       ELSE (T.cid \notin DOMAIN st.calls \/ st.calls[T.cid].st = "done") /\ UNCHANGED st
    /\ UNCHANGED tp /\ Adv

\* the driver waited for the answer of a call and gave up: explainable only if the call is legitimately waiting - a poll
\* that is parked with no wake-up due, or a request whose body has not arrived in full
TNoAnswer ==
    /\ Is("NoAnswer")
    /\ T.cid \in DOMAIN st.calls
    /\ \/ st.calls[T.cid].st = "parked" /\ ~WakeEn(st, T.cid)
       \/ st.calls[T.cid].st = "issued" /\ st.calls[T.cid].slow
    /\ UNCHANGED <<st, tp>> /\ Adv

ResMatches(r, t) ==
    /\ r.status = t.status
    /\ (t.status >= 400 => r.et = t.et)
    /\ r.kind = t.kind
    /\ r.inv = t.inv
    /\ r.pl = t.pl
    /\ r.reason = t.reason

TRet ==
    /\ Is("Ret")
    /\ T.cid \in DOMAIN st.calls
    /\ IF T.net = ""
       THEN /\ ReturnEn(st, T.cid)
            /\ ResMatches(st.calls[T.cid].res, T)
            /\ st' = ReturnDo(st, T.cid)
       ELSE \* network error: the server closed the connection (status 0), the client's process is dead,
            \* or the client itself broke the connection ("aborted")
            \/ /\ T.net = "aborted" /\ AbortEn(st, T.cid) /\ st' = AbortDo(st, T.cid)
            \/ /\ ReturnEn(st, T.cid) /\ st.calls[T.cid].res.status = 0
               /\ st' = ReturnDo(st, T.cid)
            \/ /\ AbortEn(st, T.cid)
               /\ ~T.detc            \* (a request sent by a helper that outlives the process does not break with it)
               /\ LET p == <<IF T.who = "rt" THEN RtBase ELSE T.who, T.gen>> IN
                  p \in DOMAIN st.procs /\ st.procs[p].st = "dead"
               /\ st' = AbortDo(st, T.cid)
    /\ UNCHANGED tp /\ Adv

TInvokeCall ==
    /\ Is("InvokeCall")
    /\ T.caller \in Callers
    /\ CallerStartEn(st, T.caller)
    /\ T.k = st.ninv + 1
    /\ st' = [CallerStartDo(st, T.caller, T.pl, T.big) EXCEPT !.iv[T.k].t0 = T.t, !.iv[T.k].lg = T.large]
    /\ UNCHANGED tp /\ Adv

TInvokeRet ==
    /\ Is("InvokeRet")
    /\ CallerReturnEn(st, T.caller)
    /\ st.busy[T.caller] = T.k
    /\ st.iv[T.k].out = T.out
    /\ st.iv[T.k].body = T.body
    \* the timer runs for the configured function timeout; every invocation is answered within
    \* timeout + reset allowance (2 s) + exit grace (2 s) + slack
    /\ (T.out = "InvokeTimeout" => T.dur >= st.timeoutMs)
    \* an extra caller is refused immediately
    /\ (T.out = "AlreadyReserved" => T.dur <= 1000)
    /\ T.dur <= st.timeoutMs + 4000 + Slack
    /\ st' = CallerReturnDo(st, T.caller)
    /\ UNCHANGED tp /\ Adv

TProcExit ==
    /\ Is("ProcExit")
    /\ ProcExitEn(st, Proc(T)) /\ st' = ProcExitDo(st, Proc(T))
    /\ UNCHANGED tp /\ Adv

TExitDelivered ==
    /\ Is("ExitDelivered")
    /\ WatchRecvEn(st, Proc(T)) /\ st' = WatchRecvDo(st, Proc(T))
    /\ UNCHANGED tp /\ Adv

TExitSend ==
    /\ Is("ExitSend")
    /\ ExitSendEn(st, Proc(T)) /\ st' = ExitSendDo(st, Proc(T))
    /\ UNCHANGED tp /\ Adv

TTerminate ==
    /\ Is("Terminate")
    /\ ShutTermRuntimeEn(st) /\ st.pcS.rtp = Proc(T)
    /\ st' = [ShutTermRuntimeDo(st) EXCEPT !.pcS.tterm = T.t]
    /\ UNCHANGED tp /\ Adv

TKillCall ==
    /\ Is("KillCall")
    /\ \/ /\ ShutKillRuntimeNowEn(st) /\ st.pcS.rtp = Proc(T) /\ st' = [ShutKillRuntimeNowDo(st) EXCEPT !.pcS.treap = T.t]
       \* the runtime is killed only after 30% of the time that was available when TERM was sent
       \/ /\ ShutKillRuntimeLateEn(st) /\ st.pcS.rtp = Proc(T)
          /\ (st.pcS.dl > 0 => 10 * (T.t - st.pcS.tterm) >= 3 * (st.pcS.dl - st.pcS.tterm) - 30)
          /\ st' = ShutKillRuntimeLateDo(st)
       \* an extension subscribed to SHUTDOWN is killed only at the deadline, others at once
       \/ /\ ShutAgentKillEn(st, Proc(T))
          /\ (Proc(T) \in st.shutAwait /\ st.pcS.dl > 0 => T.t >= st.pcS.dl - 3)
          \* the deadline kill of a SHUTDOWN subscriber is a timer: not while the emulator still owes somebody an answer
          /\ (Proc(T) \in st.shutAwait /\ st.strictTimer => ~Urgent(st) /\ NoStaleAnswer)
          /\ st' = ShutAgentKillDo(st, Proc(T))
    /\ UNCHANGED tp /\ Adv

TelMatches(x, t) ==
    /\ x.kind = t.tk
    /\ IF t.tk = "ExtensionInit"
       THEN x.lines = {[name |-> ln.name, st |-> ln.st, subs |-> SetOf(ln.subs), err |-> ln.err] : ln \in SetOf(t.lines)}
       ELSE /\ x.phase = t.phase /\ x.status = t.status /\ x.et = t.et /\ x.inv = t.inv

TTel ==
    /\ Is("Tel")
    /\ tp < Len(st.tel)
    /\ TelMatches(st.tel[tp + 1], T)
    /\ tp' = tp + 1
    /\ UNCHANGED st /\ Adv

TResetCall ==
    /\ Is("ResetCall")
    /\ DriverResetEn(st) /\ st' = DriverResetDo(st, T.reason, T.t + T.timeoutMs)
    /\ UNCHANGED tp /\ Adv

TResetRet ==
    /\ Is("ResetRet")
    /\ DriverResetRetEn(st)
    \* returns within the deadline plus the 2 s exit grace plus slack
    /\ T.t <= st.drvDl + 2000 + Slack
    /\ st' = DriverResetRetDo(st)
    /\ UNCHANGED tp /\ Adv

TShutdownCall ==
    /\ Is("ShutdownCall")
    /\ DriverShutdownEn(st) /\ st' = [DriverShutdownDo(st) EXCEPT !.pcS.dl = T.t + T.timeoutMs, !.drvDl = T.t + T.timeoutMs]
    /\ UNCHANGED tp /\ Adv

TShutdownRet ==
    /\ Is("ShutdownRet")
    /\ DriverShutdownRetEn(st)
    /\ T.t <= st.drvDl + 2000 + Slack
    /\ st' = DriverShutdownRetDo(st)
    /\ UNCHANGED tp /\ Adv

TRestoreCall ==
    /\ Is("RestoreCall")
    /\ RestoreBeginEn(st) /\ st' = RestoreBeginDo(st, T.reason, T.t + T.timeoutMs)
    /\ UNCHANGED tp /\ Adv

TRestoreRet ==
    /\ Is("RestoreRet")
    /\ RestoreReturnEn(st)
    /\ st.pcT.err = T.err
    \* a hook that does not finish fails the restore no earlier than the hook timeout and shortly after it
    /\ (T.err = "Runtime.RestoreHookUserTimeout" => T.t >= st.pcT.dl - 3 /\ T.t <= st.pcT.dl + RestoreSlack)
    /\ st' = RestoreReturnDo(st)
    /\ UNCHANGED tp /\ Adv

\* an observation of the emulator's internal state made by the driver (runtime or agent automaton state)
TObs ==
    /\ Is("Obs")
    /\ IF T.who = "rt" THEN st.rt = T.name
       ELSE T.who \in Agents(st) /\ st.ag[T.who].st = T.name
    /\ UNCHANGED <<st, tp>> /\ Adv

THook ==
    /\ Is("Hook")
    /\ \/ T.ph = "enter" /\ HookEnterEn(st, T.point) /\ st' = HookEnterDo(st, T.point)
       \/ T.ph = "leave" /\ HookLeaveEn(st, T.point) /\ st' = HookLeaveDo(st, T.point)
    /\ UNCHANGED tp /\ Adv

Observable ==
    \/ THook \/ TObs
    \/ TRestoreCall \/ TRestoreRet
    \/ TBegin \/ TInitCall \/ TExec \/ TCall \/ TBodyDone \/ TNoAnswer \/ TRet \/ TInvokeCall \/ TInvokeRet \/ TInvokeMsg
    \/ TProcExit \/ TExitSend \/ TExitDelivered \/ TTerminate \/ TKillCall \/ TTel
    \/ TResetCall \/ TResetRet \/ TShutdownCall \/ TShutdownRet

----------------------------------------------------------------------------
(* internal steps *)

Step(en, do) == en /\ st' = do


Internal ==
    /\ l <= Len(TraceLog)
    /\ UNCHANGED <<l, tp>>
    /\ \/ Step(InitLockEn(st), InitLockDo(st))
       \/ Step(CreateExtEn(st), CreateExtDo(st))
       \/ Step(LaunchRuntimeEn(st) /\ LaunchRuntimeExec(st) = "none", LaunchRuntimeDo(st))
       \/ Step(AfterRuntimeReadyEn(st), AfterRuntimeReadyDo(st))
       \/ Step(AgentsReadyEn(st), AgentsReadyDo(st))
       \/ Step(InitEndEn(st), InitEndDo(st))
       \/ Step(InvokeLockEn(st), InvokeLockDo(st))
       \/ Step(InvokeInitFailedEn(st), InvokeInitFailedDo(st))
       \/ Step(DispatchEn(st), DispatchDo(st))
       \/ Step(AwaitResponseEn(st), AwaitResponseDo(st))
       \/ Step(AwaitRuntimeBackEn(st), AwaitRuntimeBackDo(st))
       \/ Step(AwaitAgentsBackEn(st), AwaitAgentsBackDo(st))
       \/ Step(InvokeReturnEn(st), InvokeReturnDo(st))
       \/ \E k \in DOMAIN st.iv :
            \/ Step(MainBeginEn(st, k), MainBeginDo(st, k))
            \/ Step(RelReserveEn(st, k), RelReserveDo(st, k))
            \/ Step(FioAwaitInitEn(st, k), FioAwaitInitDo(st, k))
            \/ Step(FioInitFailedEn(st, k), FioInitFailedDo(st, k))
            \/ Step(FioShutdownEn(st, k), [FioShutdownDo(st, k) EXCEPT !.pcS.dl = PrevT + 2000])
            \/ Step(FioShutdownDoneEn(st, k), FioShutdownDoneDo(st, k))
            \/ Step(FioFastInvokeEn(st, k), FioFastInvokeDo(st, k))
            \/ Step(FiiStartEn(st, k), FiiStartDo(st, k))
            \/ Step(FiiDefaultErrorEn(st, k), FiiDefaultErrorDo(st, k))
            \/ Step(FiiSendDoneEn(st, k), FiiSendDoneDo(st, k))
            \/ Step(RelAwaitEn(st, k),
                    LET s2 == RelAwaitDo(st, k) IN
                    IF <<k, "F">> \in DOMAIN s2.rs /\ <<k, "F">> \notin DOMAIN st.rs
                    THEN [s2 EXCEPT !.rs[<<k, "F">>].dl = PrevT + 2000] ELSE s2)
            \/ Step(RelAfterResetEn(st, k), RelAfterResetDo(st, k))
            \/ Step(MainGotResultEn(st, k), MainGotResultDo(st, k))
            \* the timer: not before the function timeout has elapsed (the step lies before the next recorded
            \* event), and - strict timer rule - not while the emulator itself still has something to do
            \/ Step(/\ MainTimeoutEn(st, k)
                    /\ T.t >= st.iv[k].t0 + st.timeoutMs - 2
                    /\ (st.strictTimer => ~Urgent(st) /\ NoStaleAnswer),
                    MainTimeoutDo(st, k))
            \/ Step(MainAfterResetEn(st, k), MainAfterResetDo(st, k))
            \/ Step(MainOnceWaitEn(st, k), MainOnceWaitDo(st, k))
            \/ Step(RelOnceWaitEn(st, k), RelOnceWaitDo(st, k))
            \/ Step(MainAfterTimeoutEn(st, k), MainAfterTimeoutDo(st, k))
       \/ \E x \in DOMAIN st.rs :
            \/ Step(ResetCancelEn(st, x), ResetCancelDo(st, x))
            \/ Step(ResetLockEn(st, x), ResetLockDo(st, x))
            \/ Step(ResetFinishEn(st, x), ResetFinishDo(st, x))
            \/ Step(ResetClearEn(st, x), ResetClearDo(st, x))
            \/ Step(ResetServerClearEn(st, x), ResetServerClearDo(st, x))
       \/ Step(RestoreAwaitEn(st), RestoreAwaitDo(st))
       \/ Step(RestoreTimeoutEn(st) /\ NextT >= st.pcT.dl - 3 /\ (st.strictTimer => ~Urgent(st)), RestoreTimeoutDo(st))
       \/ Step(DriverShutdownLockEn(st), DriverShutdownLockDo(st, st.pcS.dl))
       \/ Step(ShutBeginEn(st), LET s2 == ShutBeginDo(st) IN IF s2.pcS.pc = "reap" THEN [s2 EXCEPT !.pcS.treap = PrevT] ELSE s2)
       \/ Step(ShutRuntimeExitedEn(st), ShutRuntimeExitedDo(st))
       \/ Step(ShutAgentsEn(st), ShutAgentsDo(st))
       \/ \E p \in st.pcS.todo : Step(ShutAgentExitedEn(st, p), ShutAgentExitedDo(st, p))
       \/ Step(ShutAgentsJoinedEn(st), [ShutAgentsJoinedDo(st) EXCEPT !.pcS.treap = PrevT])
       \/ Step(ShutReapedEn(st), ShutReapedDo(st))
       \* the 2 s exit grace, counted from the moment the wait began (treap, stamped by every step that enters "reap")
       \/ Step(ShutReapTimeoutEn(st) /\ NextT >= st.pcS.treap + 2000 - 5, ShutReapTimeoutDo(st))
       \/ \E p \in DOMAIN st.procs : Step(WatchRecvEn(st, p), WatchRecvDo(st, p))
       \/ Step(WatchHandleEn(st), WatchHandleDo(st))
       \/ Step(WatchCancelEn(st), WatchCancelDo(st))
       \/ \E c \in DOMAIN st.calls :
            \/ Step(EffectEn(st, c), StampDone(EffectDo(st, c)))
            \/ Step(HeadersEn(st, c), StampDone(HeadersDo(st, c)))
            \/ Step(WakeEn(st, c), StampDone(WakeDo(st, c)))
            \/ Step(ReapEn(st, c), ReapDo(st, c))

TraceInit == l = 1 /\ tp = 0 /\ fl = [sid |-> "", set |-> {}] /\ st = State0({}, {}) /\ TLCSet(1, 1)

\* fl: [sid, set]: the properties (Rapid!PropHolds) that failed in some state of this behaviour since the
\* scenario began; printed when the next scenario begins (every behaviour that gets there has explained the
\* whole scenario) and when the whole trace is explained
TraceNext ==
    /\ Observable \/ Internal
    /\ fl' = IF Is("Begin") /\ l' = l + 1 THEN [sid |-> T.sid, set |-> PropViolations(st')]
             ELSE [fl EXCEPT !.set = @ \cup PropViolations(st')]
    /\ (Is("Begin") /\ l' = l + 1) => PrintT(<<"flags", fl.sid, fl.set>>)

TraceSpec == TraceInit /\ [][TraceNext]_tvars

HighWater ==
    /\ IF l > TLCGet(1) THEN PrintT(<<"hw", l>>) /\ TLCSet(1, l) ELSE TRUE
    \* the whole trace is explained: stop the search
    /\ IF l = Len(TraceLog) + 1 THEN PrintT(<<"flags", fl.sid, fl.set>>) /\ TLCSet("exit", TRUE) ELSE TRUE

TraceAccepted ==
    IF TLCGet(1) = Len(TraceLog) + 1 THEN TRUE
    ELSE /\ PrintT(<<"TRACE-REJECTED at line", TLCGet(1), "of", Len(TraceLog)>>)
         /\ IF TLCGet(1) <= Len(TraceLog) THEN PrintT(<<"unmatched", TraceLog[TLCGet(1)]>>) ELSE TRUE
         /\ FALSE

\* debugging aid: with the constant HWM set to the rejection line, TLC prints a behaviour reaching it
CONSTANT HWM
NotReached == l < HWM
=============================================================================
