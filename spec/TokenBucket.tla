----------------------------- MODULE TokenBucket -----------------------------
(***************************************************************************)
(* Token bucket throttler of the streaming direct-invoke response          *)
(* (lambda/core/bandwidthlimiter): a bucket of `Burst` tokens, refilled by *)
(* `Refill` tokens per tick up to `Burst`; a chunk of n <= Burst bytes is  *)
(* written once n tokens can be consumed (C17: the volume forwarded by any *)
(* time never exceeds burst + rate x elapsed time; the copy terminates).   *)
(* Chunk sizes are chosen by the environment (any chunking of the payload). *)
(***************************************************************************)
EXTENDS Integers

CONSTANTS Burst, Refill, NChunks

VARIABLES tokens, ticks, written, left, want   \* want: size of the chunk the writer is trying to send (0 = none)

vars == <<tokens, ticks, written, left, want>>

Init == tokens = Burst /\ ticks = 0 /\ written = 0 /\ left = NChunks /\ want = 0

\* io.Copy hands the next chunk to the writer (larger buffers are split into chunks of at most Burst)
Offer == /\ want = 0 /\ left > 0
         /\ \E n \in 1..Burst : want' = n
         /\ left' = left - 1
         /\ UNCHANGED <<tokens, ticks, written>>

\* bandwidthLimitingWrite: consume the tokens or wait for the next refill
Write == /\ want > 0 /\ want <= tokens
         /\ tokens' = tokens - want /\ written' = written + want /\ want' = 0
         /\ UNCHANGED <<ticks, left>>

\* the ticker refills; ticks are only counted while the writer waits (more ticks only loosen RateBound)
Tick == /\ want > tokens
        /\ ticks' = ticks + 1
        /\ tokens' = IF tokens + Refill > Burst THEN Burst ELSE tokens + Refill
        /\ UNCHANGED <<written, left, want>>

Next == Offer \/ Write \/ Tick
Spec == Init /\ [][Next]_vars /\ WF_vars(Tick) /\ WF_vars(Write) /\ WF_vars(Offer)

RateBound == written <= Burst + Refill * ticks
TokensBounded == tokens >= 0 /\ tokens <= Burst
Terminates == <>(left = 0 /\ want = 0)
=============================================================================
