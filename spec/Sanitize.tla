------------------------------ MODULE Sanitize ------------------------------
(***************************************************************************)
(* Client-supplied error metadata (property C20).  Three case-rich pure     *)
(* functions are transcribed; every state is one abstract test case with   *)
(* its expected classification; the replayer concretises each abstract     *)
(* case into concrete strings / documents / headers and runs the real      *)
(* functions (engine E2, "one implementation test per TLC state").         *)
(*                                                                         *)
(* part "etype":   fatalerror.GetValidRuntimeOrFunctionErrorType           *)
(* part "cause":   model.ValidatedErrorCauseJSON (+ cropping)              *)
(* part "release": appctx.UpdateAppCtxWithRuntimeRelease /                 *)
(*                 CreateRuntimeReleaseFromRequest                         *)
(***************************************************************************)
EXTENDS Integers, Sequences, FiniteSets, TLC

CONSTANTS MaxLen,   \* longest symbol sequence for error types
          FLens     \* feature lengths explored

VARIABLES c, exp

----------------------------------------------------------------------------
(* error type: a string is a sequence of symbols                           *)
(*   "R" the literal Runtime   "F" the literal Function   "." a dot        *)
(*   "U" an upper-case letter  "l" a lower-case letter    "o" anything else *)
(*   (digit, space, punctuation, non-ASCII, control character)             *)

Sym == {"R", "F", ".", "U", "l", "o"}
Strings == UNION {[1..n -> Sym] : n \in 0..MaxLen}

\* exactly the form  Runtime.X | Function.X  with X a capitalised word of letters (the code's expression
\* [A-Z][a-zA-Z]+ asks for at least two letters; read as anchored)
Letters == {"U", "l", "R", "F"}          \* the literals Runtime / Function are themselves capitalised words
Capital == {"U", "R", "F"}
ValidEType(s) ==
    /\ Len(s) >= 3
    /\ s[1] \in {"R", "F"} /\ s[2] = "."
    /\ s[3] \in Capital
    /\ \A i \in 3..Len(s) : s[i] \in Letters
    /\ (Len(s) >= 4 \/ s[3] \in {"R", "F"})      \* at least two letters after the dot

ETypeOut(s) ==
    IF ValidEType(s) THEN "same"
    ELSE IF Len(s) >= 2 /\ s[1] = "F" /\ s[2] = "." THEN "Function.Unknown"
    ELSE "Runtime.Unknown"

ETypeCases == {[part |-> "etype", s |-> s] : s \in Strings}

----------------------------------------------------------------------------
(* X-Ray error cause: decision structure over document classes              *)

Fields == {"exceptions", "working_directory", "paths", "message"}
Sizes == {"small", "mid", "huge"}      \* per field: ~100 B, ~40 KiB, ~1.5 MiB (concretised by the replayer)
Escapes == {"plain", "quotes", "control", "multibyte", "html"}   \* html: literal <, >, & in the document (6 bytes each once re-encoded)

CauseCases ==
    {[part |-> "cause", json |-> j, fields |-> fs, size |-> z, esc |-> e, extra |-> x] :
        \* trailing: a well-formed document followed by further bytes; concat: two documents one after the other -
        \* neither is valid JSON
        j \in {"object", "invalid", "array", "string", "trailing", "concat"}, fs \in SUBSET Fields, z \in Sizes, e \in Escapes, x \in BOOLEAN}

\* "dropped" | "bounded": valid JSON of at most 64 KiB whose fields are (prefixes of) the original ones
CauseOut(k) ==
    IF k.json # "object" THEN "dropped"
    ELSE IF k.fields = {} THEN "dropped"       \* no recognised field (unknown extra fields do not count)
    ELSE "bounded"

----------------------------------------------------------------------------
(* runtime identity string: user agent + feature list, budget of 128 bytes  *)

Max == 128
UALens == {0, 1, 10, 100, 120, 124, 125, 126, 130}
FeatSeqs == UNION {[1..n -> FLens] : n \in 0..3}

\* which features are appended (CreateRuntimeReleaseFromRequest): greedy under the budget
RECURSIVE Greedy(_, _, _, _)
Greedy(fs, i, avail, n) ==
    IF i > Len(fs) THEN <<>>
    ELSE IF fs[i] <= avail - n
         THEN <<TRUE>> \o Greedy(fs, i + 1, avail - fs[i], n + 1)
         ELSE <<FALSE>> \o Greedy(fs, i + 1, avail, n)

RECURSIVE SumTaken(_, _, _)
SumTaken(fs, take, i) == IF i > Len(fs) THEN 0 ELSE (IF take[i] THEN fs[i] ELSE 0) + SumTaken(fs, take, i + 1)
CountTaken(take) == Cardinality({i \in DOMAIN take : take[i]})

ReleaseOut(ua, fs) ==
    LET base == IF ua = 0 THEN 7 ELSE ua          \* "Unknown" stands in for an empty user agent
        take == Greedy(fs, 1, Max - base - 3, 0)
        n == CountTaken(take)
    IN [take |-> take,
        len |-> IF n = 0 THEN ua ELSE base + 3 + SumTaken(fs, take, 1) + (n - 1)]

ReleaseCases == {[part |-> "release", ua |-> u, feats |-> fs, again |-> g] : u \in UALens, fs \in FeatSeqs, g \in FLens}

----------------------------------------------------------------------------
Cases == ETypeCases \cup CauseCases \cup ReleaseCases

Expected(k) ==
    CASE k.part = "etype" -> [out |-> ETypeOut(k.s)]
      [] k.part = "cause" -> [out |-> CauseOut(k)]
      [] k.part = "release" -> ReleaseOut(k.ua, k.feats)

Init == c \in Cases /\ exp = Expected(c)
Next == UNCHANGED <<c, exp>>
Spec == Init /\ [][Next]_<<c, exp>>

\* C20 on the transcription: the identity string never grows beyond 128 bytes through features
ReleaseBounded == c.part = "release" => (CountTaken(exp.take) > 0 => exp.len <= Max)
\* anything that is not exactly Runtime.X / Function.X becomes an Unknown type
ETypeTotal == c.part = "etype" => exp.out \in {"same", "Function.Unknown", "Runtime.Unknown"}
=============================================================================
