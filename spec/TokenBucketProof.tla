-------------------------- MODULE TokenBucketProof --------------------------
(***************************************************************************)
(* TLAPS proof of the rate bound of the token bucket (property C17) for     *)
(* every burst size, refill quantum, payload length and chunking:           *)
(*     written <= Burst + Refill * ticks                                    *)
(* via the inductive strengthening  written + tokens <= Burst + Refill*ticks *)
(***************************************************************************)
EXTENDS TokenBucket, TLAPS

ASSUME Assumptions == Burst \in Nat /\ Refill \in Nat /\ NChunks \in Nat

Inv ==
    /\ tokens \in Nat /\ ticks \in Nat /\ written \in Nat /\ left \in Nat /\ want \in Nat
    /\ tokens <= Burst
    /\ written + tokens <= Burst + Refill * ticks

LEMMA InitInv == Init => Inv
  BY Assumptions DEF Init, Inv

LEMMA NextInv == Inv /\ [Next]_vars => Inv'
<1> SUFFICES ASSUME Inv, [Next]_vars PROVE Inv'
    OBVIOUS
<1> USE Assumptions DEF Inv
<1>1. ASSUME Offer PROVE Inv'
    BY <1>1 DEF Offer
<1>2. ASSUME Write PROVE Inv'
    BY <1>2 DEF Write
<1>3. ASSUME Tick PROVE Inv'
  <2>1. Refill * (ticks + 1) = Refill * ticks + Refill
      OBVIOUS
  <2> QED
      BY <1>3, <2>1 DEF Tick
<1>4. ASSUME UNCHANGED vars PROVE Inv'
    BY <1>4 DEF vars
<1> QED
    BY <1>1, <1>2, <1>3, <1>4 DEF Next

THEOREM Safety == Spec => [](RateBound /\ TokensBounded)
<1>1. Init /\ [][Next]_vars => []Inv
    BY InitInv, NextInv, PTL
<1>2. Inv => RateBound /\ TokensBounded
    BY Assumptions DEF Inv, RateBound, TokensBounded
<1> QED
    BY <1>1, <1>2, PTL DEF Spec
=============================================================================
