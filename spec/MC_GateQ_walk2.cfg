SPECIFICATION QSpec
CONSTANTS
  Waiters = {1, 2}
  Counts = {0, 1, 2, 65535}
  Errs = {"nil", "e1"}
  MaxOps = 0
  SetCountBroadcasts = TRUE
INVARIANTS TypeOK NoLostWakeup DoneHasResult QNoWoken
CHECK_DEADLOCK FALSE
