SPECIFICATION Spec
CONSTANT Sticky = TRUE
PROPERTY HistoryIndependent
CHECK_DEADLOCK FALSE
