SPECIFICATION Spec
INVARIANTS AtMostOneEvent EventOnlyAfterDeath
PROPERTIES DeadStaysDead EveryDeathReported
CHECK_DEADLOCK FALSE
