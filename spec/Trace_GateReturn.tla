-------------------------- MODULE Trace_GateReturn --------------------------
(***************************************************************************)
(* Validation of return observations of core.Gate.AwaitGateCondition.       *)
(* The quiescent graph walk (GateQ) cannot see the window between the       *)
(* broadcast that wakes a parked waiter and the moment the waiter holds the *)
(* lock again; Gate.tla models that window (wake, then re-test under the    *)
(* lock) and TLC checks ReturnIsJustified on it.  This module binds the     *)
(* code in that window: a stress driver (harness/gate/stress.go) makes the  *)
(* condition false again right after the waking arrival; the hook           *)
(* core.VerifGateHook records, under the gate's lock, the state in which    *)
(* each AwaitGateCondition call decided to return.  Every such state must   *)
(* be one in which the specification lets a waiter return: GCond.           *)
(***************************************************************************)
EXTENDS GateOps, Json, Sequences, TLC

VARIABLE l

TraceLog == ndJsonDeserialize("trace.ndjson")
T == TraceLog[l]
Rec(o) == [count |-> o.count, init |-> o.count, arrived |-> o.arrived, canceled |-> o.canceled, err |-> "nil"]

TReturn == l <= Len(TraceLog) /\ T.e = "AwaitReturn" /\ GCond(Rec(T)) /\ l' = l + 1

TraceInit == l = 1 /\ TLCSet(1, 1)
TraceNext == TReturn
TraceSpec == TraceInit /\ [][TraceNext]_l

HighWater ==
    /\ IF l > TLCGet(1) THEN PrintT(<<"hw", l>>) /\ TLCSet(1, l) ELSE TRUE
    /\ IF l = Len(TraceLog) + 1 THEN TLCSet("exit", TRUE) ELSE TRUE
=============================================================================
