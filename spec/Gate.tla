------------------------------- MODULE Gate -------------------------------
(***************************************************************************)
(* The counting latch of lambda/core/gates.go (property C11).              *)
(*                                                                         *)
(* One latch record  [count, arrived, canceled, err]  protected by one     *)
(* mutex; every method of gateImpl is one critical section = one action.   *)
(* The only non-atomic part of the primitive is a waiter that was woken by *)
(* Broadcast and has not yet re-acquired the mutex: state "woken", action  *)
(* Recheck.                                                                *)
(*                                                                         *)
(* The latch operators (GWalk, GSetCount, ...) are pure functions on the   *)
(* record returning <<new record, Go return value, broadcast?>> so that    *)
(* Flows.tla / Rapid.tla apply the same definitions to their latches.      *)
(*                                                                         *)
(* SetCountBroadcasts = TRUE is the latch the property demands (and the    *)
(* tree after the "fix:" commit of F-C11-1); FALSE is gates.go as found:   *)
(* SetCount never broadcasts, so a waiter stays parked although            *)
(* arrived = count.                                                        *)
(***************************************************************************)
EXTENDS Integers, FiniteSets, TLC, GateOps

CONSTANTS Waiters,            \* e.g. {1,2,3}
          Counts,             \* expected counts explored, e.g. {0,1,2,3,65535}
          Errs,               \* cancellation errors incl. "nil", e.g. {"nil","e1","e2"}
          MaxOps              \* bound on operator steps (exhaustive configs)
          \* (SetCountBroadcasts is declared in GateOps)

VARIABLES g,      \* the latch record
          wst,    \* waiter -> "idle" | "parked" | "woken" | "done"
          wres,   \* waiter -> "none" | "ok" | "ErrGateCanceled" | e \in Errs
          ops,    \* number of operator steps so far
          last    \* Go return value of the last operator step ("void" for procedures)

vars == <<g, wst, wres, ops, last>>


----------------------------------------------------------------------------
----------------------------------------------------------------------------
(* Standalone specification with waiter processes                          *)

Wake(ws) == [w \in DOMAIN ws |-> IF ws[w] = "parked" THEN "woken" ELSE ws[w]]

Apply(t) ==
    /\ ops < MaxOps
    /\ g' = t[1]
    /\ last' = t[2]
    /\ wst' = IF t[3] THEN Wake(wst) ELSE wst
    /\ ops' = ops + 1
    /\ UNCHANGED wres

Register(n) == g.count + n <= MaxU16 /\ g.count + n \in Counts /\ Apply(GRegister(g, n))
SetCount(n) == n \in Counts /\ Apply(GSetCount(g, n))
Reset       == TRUE /\ Apply(GReset(g))
WalkThrough == TRUE /\ Apply(GWalk(g))
Cancel(e)   == e \in Errs /\ Apply(GCancel(g, e))
Clear       == TRUE /\ Apply(GClear(g))

\* the test a waiter performs while holding the mutex (on entry and after every wake-up)
Test(w) ==
    /\ IF GCond(g)
       THEN /\ wst'  = [wst  EXCEPT ![w] = "done"]
            /\ wres' = [wres EXCEPT ![w] = GOutcome(g)]
       ELSE /\ wst'  = [wst  EXCEPT ![w] = "parked"]
            /\ UNCHANGED wres
    /\ UNCHANGED <<g, ops, last>>

AwaitCall(w) == wst[w] = "idle"  /\ Test(w)
Recheck(w)   == wst[w] = "woken" /\ Test(w)

\* the same goroutine waits again later
Again(w) ==
    /\ wst[w] = "done"
    /\ ops < MaxOps
    /\ wst'  = [wst  EXCEPT ![w] = "idle"]
    /\ wres' = [wres EXCEPT ![w] = "none"]
    /\ ops' = ops + 1
    /\ last' = "void"
    /\ UNCHANGED g

Init ==
    /\ g \in {GNew(c) : c \in Counts}
    /\ wst  = [w \in Waiters |-> "idle"]
    /\ wres = [w \in Waiters |-> "none"]
    /\ ops = 0
    /\ last = "void"

Next ==
    \/ \E n \in 0..2 : Register(n)
    \/ \E n \in Counts : SetCount(n)
    \/ Reset
    \/ WalkThrough
    \/ \E e \in Errs : Cancel(e)
    \/ Clear
    \/ \E w \in Waiters : AwaitCall(w) \/ Recheck(w) \/ Again(w)

Spec == Init /\ [][Next]_vars /\ \A w \in Waiters : WF_vars(Recheck(w))

----------------------------------------------------------------------------
(* Properties (C11)                                                        *)

TypeOK ==
    /\ g.count \in Nat /\ g.init \in Nat /\ g.arrived \in Nat /\ g.canceled \in BOOLEAN /\ g.err \in Errs
    /\ wst  \in [Waiters -> {"idle", "parked", "woken", "done"}]
    /\ wres \in [Waiters -> {"none", "ok", "ErrGateCanceled"} \cup Errs]

\* arrivals never exceed the expected count (refusal of over-arrival and of counts below arrivals)
ArrivedLeCount == g.arrived <= g.count

\* "No waiter stays blocked once its condition holds": a parked waiter with no wake-up
\* in flight implies that its condition is false.
NoLostWakeup == \A w \in Waiters : wst[w] = "parked" => ~GCond(g)

\* a finished waiter holds the value the latch prescribed at its return
DoneHasResult == \A w \in Waiters : (wst[w] = "done") <=> (wres[w] # "none")

\* "returns success exactly when arrivals = count", "returns the cancellation error if cancelled",
\* "none returns before it does"
ReturnIsJustified ==
    [][\A w \in Waiters :
         (wst[w] # "done" /\ wst'[w] = "done") =>
            /\ GCond(g)
            /\ (wres'[w] = "ok") <=> (g.arrived = g.count /\ ~g.canceled)
            /\ g.canceled => wres'[w] = (IF g.err = "nil" THEN "ErrGateCanceled" ELSE g.err)]_vars

\* cancellation stays in force (with its error, with frozen arrivals) through Reset until Clear;
\* only Clear ends it, only Cancel changes the error
CancelSticky ==
    [][g.canceled =>
         \/ g'.canceled /\ (g' = GReset(g)[1] => g' = g)
         \/ g' = GClear(g)[1]]_vars

\* refused operations change nothing
RefusalIsNoOp ==
    [][(ops' = ops + 1 /\ last' = "ErrGateIntegrity") => (g' = g /\ wst' = wst /\ wres' = wres)]_vars

\* liveness: a woken waiter eventually re-tests; with NoLostWakeup this gives
\* "condition holds ~> waiter returns"
WokenRechecks == \A w \in Waiters : (wst[w] = "woken") ~> (wst[w] # "woken")

View == <<g, wst, wres, ops>>
=============================================================================
