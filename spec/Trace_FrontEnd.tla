--------------------------- MODULE Trace_FrontEnd ---------------------------
(***************************************************************************)
(* Trace validation of the front end: the recorded run of one scenario,    *)
(* projected to the events of cmd/aws-lambda-rie/handlers.go:               *)
(*   Begin                                  a new emulator (initDone false) *)
(*   FECall j, badctx                       HTTP request issued             *)
(*   InitCall / InitRet                     sandbox.Init called / returned  *)
(*   InvokeCall j / InvokeRet j, out, body  sandbox.Invoke called/returned  *)
(*   FERet j, status, body, lines           HTTP answer received; lines =   *)
(*                                          what the handler printed for it *)
(* Every event must be a step of FrontEnd for that request; the steps of    *)
(* the handler that leave no event (testing initDone) are silent.           *)
(***************************************************************************)
EXTENDS FrontEnd, Json

VARIABLES l, who      \* position in the trace; the request that is inside InitHandler

TraceLog == ndJsonDeserialize("trace.ndjson")
tvars == <<vars, l, who>>
T == TraceLog[l]
Is(e) == l <= Len(TraceLog) /\ T.e = e
Adv == l' = l + 1

TBegin == Is("Begin") /\ lock' = 0 /\ initDone' = FALSE /\ inits' = 0 /\ req' = [j \in Reqs |-> NoReq]
          /\ lines' = [j \in Reqs |-> <<>>] /\ who' = 0 /\ Adv

TFECall == Is("FECall") /\ Arrive(T.j, T.badctx) /\ UNCHANGED who /\ Adv

TInitCall ==
    /\ Is("InitCall")
    /\ \E j \in Reqs : CallInit(j) /\ who' = j
    /\ Adv
TInitRet == Is("InitRet") /\ who # 0 /\ InitReturns(who) /\ who' = 0 /\ Adv

\* dataok: the payload, client context, trace id and ARN handed to the sandbox are those of the HTTP request
TInvokeCall == Is("InvokeCall") /\ T.dataok /\ CallInvoke(T.j) /\ UNCHANGED who /\ Adv
TInvokeRet == Is("InvokeRet") /\ InvokeReturns(T.j, T.out, T.body) /\ UNCHANGED who /\ Adv

\* the HTTP answer: status and body class as the handler's mapping gives them
TFERet ==
    /\ Is("FERet")
    /\ \/ RejectHeader(T.j)
       \/ Respond(T.j)
    /\ req'[T.j].status = T.status /\ req'[T.j].sent = T.body
    /\ T.lines = lines'[T.j]          \* the lines printed for this request (captured standard output), in order
    /\ UNCHANGED who /\ Adv

Silent == l <= Len(TraceLog) /\ (\E j \in Reqs : TestInitDone(j)) /\ UNCHANGED <<l, who>>

TraceInit == Init /\ l = 1 /\ who = 0 /\ TLCSet(1, 1)
TraceNext == TBegin \/ TFECall \/ TInitCall \/ TInitRet \/ TInvokeCall \/ TInvokeRet \/ TFERet \/ Silent
TraceSpec == TraceInit /\ [][TraceNext]_tvars

HighWater ==
    /\ IF l > TLCGet(1) THEN PrintT(<<"hw", l>>) /\ TLCSet(1, l) ELSE TRUE
    /\ IF l = Len(TraceLog) + 1 THEN TLCSet("exit", TRUE) ELSE TRUE

TraceAccepted ==
    IF TLCGet(1) = Len(TraceLog) + 1 THEN TRUE
    ELSE /\ PrintT(<<"TRACE-REJECTED at line", TLCGet(1), "of", Len(TraceLog)>>)
         /\ IF TLCGet(1) <= Len(TraceLog) THEN PrintT(<<"unmatched", TraceLog[TLCGet(1)]>>) ELSE TRUE
         /\ FALSE

CONSTANT HWM
NotReached == l < HWM
=============================================================================
