SPECIFICATION Spec
CONSTANTS
  Burst = 5
  Refill = 2
  NChunks = 6
INVARIANTS RateBound TokensBounded
PROPERTY Terminates
CHECK_DEADLOCK FALSE
