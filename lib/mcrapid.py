"""Engine E1 for the composite: model checking of spec/MC_Rapid.tla (environment closed over Rapid.tla).

The configurations are generated here (one source: CONFIGS); every run checks the named property
predicates (Rapid!PropHolds) as invariants.  The model is the model of the code as it is, so a known,
recorded defect of the code shows up as a violated invariant: it is reported as KNOWN-FINDING and the
exploration is repeated with the behaviours of that defect cut off (CONSTRAINT), so that everything else
is still checked.  MC results do not depend on /repo; what binds the model to the code is trace
validation (E3).  A violated invariant that is not a recorded finding therefore cannot be a verdict about
the code: it is reported as inconclusive (exit 2) - the model and the recorded findings disagree.
"""
import os

import tlc
from common import Inconclusive, log

ALL = ["NoCrash", "RuntimeAfterRegistrations", "NoEventBeforeAllNext", "DoneOnlyAfterAll", "NoGhostInvoke",
       "StreamOwnerIsReserver", "OkHasBody", "ResetIsFresh", "EventsOnlyToSubscribers", "FailResetShutdownOnlyToSubscribers", "RestoreOkOnlyAfterHook"]

# name -> constants.  Measured on 16 cores: base 14 k distinct states / 3 s, misuse 27 k / 3 s, race 194 k / 12 s,
# faults 2.9 M / 76 s, deep 
CONFIGS = {
    "base":   dict(callers="{1}", calls=7, inv=2, exits=0, timers=0, race="FALSE", misuse="FALSE", shut=1),
    "misuse": dict(callers="{1}", calls=6, inv=1, exits=0, timers=0, race="FALSE", misuse="TRUE"),
    "race":   dict(callers="{1}", calls=5, inv=2, exits=0, timers=1, race="TRUE", misuse="FALSE"),
    "faults": dict(callers="{1}", calls=6, inv=2, exits=1, timers=1, race="FALSE", misuse="FALSE", shut=1),
    # snapshot mode: restore requests, the runtime's restore poll / restore error, the hook deadline
    "restore":  dict(callers="{1}", calls=5, inv=1, exits=0, timers=1, race="FALSE", misuse="FALSE", rest=1),
    "restore2": dict(callers="{1}", calls=7, inv=1, exits=0, timers=1, race="FALSE", misuse="FALSE", rest=2),
    "two":    dict(callers="{1, 2}", calls=5, inv=2, exits=0, timers=1, race="FALSE", misuse="FALSE"),
    "twox":   dict(callers="{1, 2}", calls=4, inv=2, exits=1, timers=1, race="FALSE", misuse="FALSE"),
    # an internal extension (registers over the API from inside the runtime process) next to the external one
    "internal":  dict(callers="{1}", calls=5, inv=2, exits=0, timers=1, race="FALSE", misuse="FALSE", ints='{"i1"}'),
    "internal2": dict(callers="{1}", calls=6, inv=2, exits=0, timers=1, race="FALSE", misuse="FALSE", ints='{"i1"}'),
    "deep":   dict(callers="{1}", calls=8, inv=2, exits=1, timers=1, race="TRUE", misuse="FALSE"),
    # simulation only (lib/mcsim.py): bounds that exhaustive search could not cover
    "sim":    dict(callers="{1}", calls=16, inv=3, exits=1, timers=1, race="FALSE", misuse="TRUE", shut=0),
    "simok":  dict(callers="{1}", calls=14, inv=3, exits=1, timers=1, race="FALSE", misuse="FALSE"),
}
QUICK = ["base", "misuse", "race"]
THOROUGH = ["base", "misuse", "race", "faults"]

TEMPLATE = """SPECIFICATION MCSpec
CONSTANTS
  ExtOrder <- MCExtOrder
  Callers = %(callers)s
  MaxAgents = 10
  AsFound = %(asfound)s
  SetCountBroadcasts = TRUE
  MaxCalls = %(calls)d
  MaxInv = %(inv)d
  MaxExits = %(exits)d
  MaxTimers = %(timers)d
  MaxShutdowns = %(shut)d
  MaxRestores = %(rest)d
  RaceTimer = %(race)s
  ExtSubs <- MCExtSubs
  IntNames = %(ints)s
  Misuse = %(misuse)s
  PromptHelpers = TRUE
INVARIANTS %(invariants)s
%(constraint)s
VIEW View
CHECK_DEADLOCK FALSE
"""


def cfg_text(name, invariants, constraint=None, asfound="{}"):
    p = dict(CONFIGS[name])
    p.setdefault("shut", 0)
    p.setdefault("rest", 0)
    p.setdefault("ints", "{}")
    p.update(invariants=" ".join(invariants), constraint=("CONSTRAINT " + constraint) if constraint else "", asfound=asfound)
    return TEMPLATE % p


def run(name, invariants, constraint=None, asfound="{}", timeout=900, keep=False):
    scratch = tlc.make_scratch("verif-mc-")
    path = os.path.join(scratch, "MC_Rapid_%s.cfg" % name)
    with open(path, "w") as f:
        f.write(cfg_text(name, invariants, constraint, asfound))
    res = tlc.run_tlc("MC_Rapid", path, timeout=timeout, scratch=scratch, keep=True, heap="12g")
    if not keep:
        import shutil
        shutil.rmtree(scratch, ignore_errors=True)
    return res


def check(ctx, invariants, tier=None, extra_configs=()):
    """Model-check the invariants in the tier's configurations (+ extra_configs).

    Recorded findings (KNOWN_FINDINGS.json, kind known, match.mc = {invariant, config, under}) are demonstrated first:
    the invariant must be violated in that configuration (under the given weaker constraint) -> KNOWN-FINDING.  Then
    every configuration is explored with the behaviours of all recorded findings cut off (CONSTRAINT
    KnownFindingsCutOff) and all invariants must hold."""
    names = list(THOROUGH if (tier or ctx.tier) == "thorough" else QUICK) + [c for c in extra_configs]
    for f in ctx.findings:
        mc = f.get("match", {}).get("mc") if f.get("kind") == "known" else None
        if not mc or mc["invariant"] not in invariants or mc["config"] not in names:
            continue
        r0 = run(mc["config"], [mc["invariant"]], constraint=mc.get("under"))
        ctx.add_tlc(r0, "MC_Rapid/%s/%s" % (mc["config"], mc["invariant"]))
        if r0.violation == mc["invariant"]:
            ctx.known_finding(f, "TLC: invariant %s of spec/MC_Rapid.tla is violated by the model of the code as it is "
                                 "(configuration %s, counterexample of %d states)" % (r0.violation, mc["config"], len(r0.trace)))
        elif r0.violation:
            raise Inconclusive("MC_Rapid/%s: %s" % (mc["config"], r0.violation))
    # (TLC evaluates invariants also on the states that a CONSTRAINT cuts off: the predicate of the cut-off itself
    #  cannot be an invariant of that run)
    invariants = [i for i in invariants if i != "NoGhostInvoke"]
    for name in names:
        r = run(name, list(invariants), "KnownFindingsCutOff")
        ctx.add_tlc(r, "MC_Rapid/%s" % name)
        log("E1 MC_Rapid/%s: %d distinct states, %d generated, depth %d, %.1fs, invariants %s under CONSTRAINT KnownFindingsCutOff"
            % (name, r.distinct, r.generated, r.depth, r.wall_s, ",".join(invariants)))
        if r.violation:
            raise Inconclusive("MC_Rapid/%s: invariant %s is violated by the specification itself; no recorded finding explains it "
                               "(the checks do not depend on /repo here: specification and findings file disagree)"
                               % (name, r.violation))
    ctx.coverage["mc_configs"] = names
