"""Scenario builder: small DSL producing the op scripts interpreted by harness/stack/script.go."""
import copy


class Scn:
    def __init__(self, sid, ext=(), timeout_ms=2000, **opt):
        """ext: iterable of names (files) or (name, 'dir')."""
        files = []
        for e in ext:
            if isinstance(e, (tuple, list)):
                files.append({"name": e[0], "kind": e[1]})
            else:
                files.append({"name": e, "kind": "file"})
        self.sc = {"id": sid, "opt": dict({"ext": files, "timeoutMs": timeout_ms}, **opt), "ops": [], "meta": {}}
        self.ops = self.sc["ops"]
        self._tag = 0
        self.ninv = 0

    # -- low level -------------------------------------------------------
    def op(self, **kw):
        self.ops.append(kw)
        return self

    def tag(self, prefix="t"):
        self._tag += 1
        return "%s%d" % (prefix, self._tag)

    def meta(self, **kw):
        self.sc["meta"].update(kw)
        return self

    def done(self):
        return self.sc

    # -- platform --------------------------------------------------------
    def init(self):
        return self.op(op="init")

    def await_exec(self, base=None, kind=None, n=1, since=None, soft_ms=0):
        o = dict(op="until", actor="sup", ev="Exec", n=n)
        if soft_ms:
            o.update(soft=True, ms=soft_ms)
        if kind == "rt":
            o.update(key="kind", val="rt")
        else:
            o.update(key="base", val=base)
        if since:
            o["since"] = since
        self.ops.append(o)
        return self

    def expect_exec(self, base=None, kind=None, n=1, since=None, ms=1500):
        """like await_exec, but a launch that does not come within ms is recorded (Missing: unexplainable) instead of hanging"""
        self.await_exec(base=base, kind=kind, n=n, since=since)
        self.ops[-1]["op"] = "expect"
        self.ops[-1]["ms"] = ms
        return self

    def sleep(self, ms):
        return self.op(op="sleep", ms=ms)

    def mark(self, name=None):
        name = name or self.tag("m")
        self.op(op="mark", name=name)
        return name

    # -- pause points (verif hooks in /repo) ------------------------------
    def hold(self, point, n=1, skip=0):
        return self.op(op="hold", point=point, n=n, skip=skip)

    def release(self, point):
        return self.op(op="release", point=point)

    def until_held(self, point, n=1):
        return self.op(op="until", actor="hook", ev="HookEnter", key="point", val=point, n=n)

    # -- calls -----------------------------------------------------------
    def call(self, who, api, async_=False, tag=None, **kw):
        o = dict(op="call", who=who, api=api, **kw)
        if async_:
            o["async"] = True
            o["tag"] = tag or self.tag()
        self.ops.append(o)
        return o.get("tag")

    def wait(self, tag):
        return self.op(op="wait", tag=tag)

    def settle(self, who, tag):
        return self.op(op="settle", who=who, tag=tag)

    def until_state(self, who, state):
        return self.op(op="until", who=who, state=state)

    def until_ev(self, ev, n=1, actor=None, key=None, val=None):
        o = dict(op="until", ev=ev, n=n)
        if actor:
            o["actor"] = actor
        if key:
            o["key"] = key
            o["val"] = val
        self.ops.append(o)
        return self

    def register(self, who, events=("INVOKE",), **kw):
        return self.call(who, "register", events=list(events), **kw)

    def poll(self, who, **kw):
        """start a poll and wait until it is parked or answered"""
        t = self.call(who, "next", async_=True, **kw)
        self.settle(who, t)
        return t

    def invoke(self, caller=1, async_=True, **kw):
        self.ninv += 1
        return self.call("", "invoke", async_=async_, caller=caller, **kw)

    def exit(self, who, code=0, signal=0, gen=0):
        o = dict(op="exit", who=who)
        if signal:
            o["signal"] = signal
        else:
            o["code"] = code
        if gen:
            o["gen"] = gen
        self.ops.append(o)
        return self

    # -- compound --------------------------------------------------------
    def boot(self, subs, internal=None, order=None):
        """init, registration of every external extension (subs: name -> events), runtime and
        extensions poll; returns the tags of the parked polls: {who: tag}."""
        internal = internal or {}
        self.init()
        for name in subs:
            self.await_exec(base=name)
            self.register("ext:" + name, subs[name])
        self.await_exec(kind="rt")
        for name, evs in internal.items():
            self.register("int:" + name, evs)
        tags = {}
        for name in subs:
            tags["ext:" + name] = self.poll("ext:" + name)
        for name in internal:
            tags["int:" + name] = self.poll("int:" + name)
        tags["rt"] = self.poll("rt")
        self.until_ev("Tel", key="kind", val="InitReport")
        return tags

    def round(self, tags, subs, internal=None, respond="response", body=None, size=0, seed=0,
              payload_size=5, payload_seed=None, err_type="Function.Err", order=None, **invkw):
        """one healthy invocation: invoke, runtime and INVOKE subscribers receive it, runtime answers and
        polls again, subscribers poll again, caller gets its outcome.  tags is updated in place."""
        internal = internal or {}
        k = self.ninv + 1
        it = self.invoke(size=payload_size, seed=payload_seed if payload_seed is not None else 100 + k, **invkw)
        self.wait(tags["rt"])
        listeners = ["ext:" + n for n in subs if "INVOKE" in subs[n]] + ["int:" + n for n in internal if "INVOKE" in internal[n]]
        for w in listeners:
            self.wait(tags[w])
        kw = {}
        if body is not None:
            kw["body"] = body
        elif size:
            kw["size"] = size
            kw["seed"] = seed or (200 + k)
        else:
            kw["body"] = "result-%d" % k
        if respond == "error":
            kw["errType"] = err_type
        self.call("rt", respond, id="current", **kw)
        seq = order or (["rt"] + listeners)
        for w in seq:
            tags[w] = self.poll(w)
        self.wait(it)
        return it

    def recover(self, subs, internal=None, body="recovered", **invkw):
        """an invocation served by a freshly started environment (inline init): every extension is launched
        and registers again, the runtime is launched and polls, the invocation completes"""
        internal = internal or {}
        m = self.mark()
        it = self.invoke(size=6, seed=4242 + self.ninv, **invkw)
        for name in subs:
            self.await_exec(base=name, since=m)
            self.register("ext:" + name, subs[name])
        self.await_exec(kind="rt", since=m)
        for name, evs in internal.items():
            self.register("int:" + name, evs)
        tags = {}
        for name in subs:
            tags["ext:" + name] = self.poll("ext:" + name)
        for name in internal:
            tags["int:" + name] = self.poll("int:" + name)
        tags["rt"] = self.call("rt", "next", async_=True)
        self.wait(tags["rt"])
        listeners = ["ext:" + n for n in subs if "INVOKE" in subs[n]] + ["int:" + n for n in internal if "INVOKE" in internal[n]]
        for w in listeners:
            self.wait(tags[w])
        self.call("rt", "response", id="current", body=body)
        for w in ["rt"] + listeners:
            tags[w] = self.poll(w)
        self.wait(it)
        return tags
