"""Parser for TLA+ values as TLC prints them (states in -dump dot files, simulation
traces, PrintT output).  Supported: integers, strings, booleans, model values /
identifiers, sets {..}, tuples <<..>>, records [a |-> v, ..], functions
(k :> v @@ ..), and a state conjunction  /\\ x = v /\\ y = w  (-> dict).

Mapping to Python: records and functions -> dict, sets -> frozenset when all
members are hashable else list, tuples -> tuple, model values -> str.
"""


class TLAParseError(Exception):
    pass


class _P:
    def __init__(self, s):
        self.s = s
        self.i = 0
        self.n = len(s)

    def ws(self):
        s, n = self.s, self.n
        while self.i < n and s[self.i] in " \t\r\n":
            self.i += 1

    def peek(self, k=1):
        return self.s[self.i:self.i + k]

    def eat(self, tok):
        self.ws()
        if self.s.startswith(tok, self.i):
            self.i += len(tok)
            return True
        return False

    def expect(self, tok):
        if not self.eat(tok):
            raise TLAParseError("expected %r at %d: %r" % (tok, self.i, self.s[self.i:self.i + 40]))

    def value(self):
        self.ws()
        s = self.s
        if self.i >= self.n:
            raise TLAParseError("unexpected end")
        c = s[self.i]
        if c == '"':
            return self.string()
        if c == '{':
            self.i += 1
            items = []
            self.ws()
            if self.eat('}'):
                return frozenset()
            while True:
                items.append(self.value())
                self.ws()
                if self.eat(','):
                    continue
                self.expect('}')
                break
            try:
                return frozenset(items)
            except TypeError:
                return items
        if s.startswith('<<', self.i):
            self.i += 2
            items = []
            self.ws()
            if self.eat('>>'):
                return ()
            while True:
                items.append(self.value())
                self.ws()
                if self.eat(','):
                    continue
                self.expect('>>')
                break
            return tuple(items)
        if c == '[':
            self.i += 1
            d = {}
            self.ws()
            if self.eat(']'):
                return d
            while True:
                self.ws()
                k = self.ident()
                self.expect('|->')
                d[k] = self.value()
                self.ws()
                if self.eat(','):
                    continue
                self.expect(']')
                break
            return d
        if c == '(':
            self.i += 1
            d = {}
            while True:
                k = self.value()
                self.expect(':>')
                v = self.value()
                d[_hashable(k)] = v
                self.ws()
                if self.eat('@@'):
                    continue
                self.expect(')')
                break
            return d
        if c == '-' or c.isdigit():
            j = self.i + 1
            while j < self.n and s[j].isdigit():
                j += 1
            v = int(s[self.i:j])
            self.i = j
            # integer interval a..b
            if s.startswith('..', self.i):
                self.i += 2
                hi = self.value()
                return frozenset(range(v, hi + 1))
            return v
        if c.isalpha() or c == '_':
            w = self.ident()
            if w == 'TRUE':
                return True
            if w == 'FALSE':
                return False
            return w
        raise TLAParseError("unexpected %r at %d: %r" % (c, self.i, s[self.i:self.i + 40]))

    def ident(self):
        self.ws()
        s = self.s
        j = self.i
        while j < self.n and (s[j].isalnum() or s[j] == '_'):
            j += 1
        if j == self.i:
            raise TLAParseError("identifier expected at %d: %r" % (self.i, s[self.i:self.i + 40]))
        w = s[self.i:j]
        self.i = j
        return w

    def string(self):
        s = self.s
        assert s[self.i] == '"'
        j = self.i + 1
        out = []
        while j < self.n:
            c = s[j]
            if c == '\\' and j + 1 < self.n:
                nx = s[j + 1]
                out.append({'n': '\n', 't': '\t', '"': '"', '\\': '\\'}.get(nx, nx))
                j += 2
                continue
            if c == '"':
                self.i = j + 1
                return ''.join(out)
            out.append(c)
            j += 1
        raise TLAParseError("unterminated string")


def _hashable(v):
    if isinstance(v, dict):
        return tuple(sorted((k, _hashable(x)) for k, x in v.items()))
    if isinstance(v, list):
        return tuple(_hashable(x) for x in v)
    return v


def parse_value(text):
    p = _P(text)
    v = p.value()
    p.ws()
    if p.i != p.n:
        raise TLAParseError("trailing input at %d: %r" % (p.i, text[p.i:p.i + 40]))
    return v


def parse_state(text):
    """Parse  '/\\ x = 1 /\\ y = <<>>'  (or a single 'x = 1') into a dict."""
    p = _P(text)
    d = {}
    p.ws()
    while p.i < p.n:
        p.eat('/\\')
        name = p.ident()
        p.expect('=')
        d[name] = p.value()
        p.ws()
    return d


def undot(label):
    """Undo the escaping TLC applies to labels in dot files."""
    out = []
    i = 0
    n = len(label)
    while i < n:
        c = label[i]
        if c == '\\' and i + 1 < n:
            nx = label[i + 1]
            if nx == 'n':
                out.append('\n')
            elif nx == '\\':
                out.append('\\')
            elif nx == '"':
                out.append('"')
            else:
                out.append(nx)
            i += 2
            continue
        out.append(c)
        i += 1
    return ''.join(out)


def to_jsonable(v):
    if isinstance(v, dict):
        return {str(k): to_jsonable(x) for k, x in v.items()}
    if isinstance(v, (frozenset, set)):
        try:
            return sorted(to_jsonable(x) for x in v)
        except TypeError:
            return [to_jsonable(x) for x in v]
    if isinstance(v, (tuple, list)):
        return [to_jsonable(x) for x in v]
    return v


if __name__ == '__main__':
    t = r'/\ g = [count |-> 1, arrived |-> 0, canceled |-> FALSE, err |-> "nil"] /\ w = (1 :> "idle" @@ 2 :> "parked") /\ s = {1, 2} /\ q = <<1, "a">>'
    print(parse_state(t))
