"""State-graph walking (engine E2): parse a TLC '-dump dot,actionlabels' file and
compute paths from the initial states that cover every edge."""
import json
import re
import random
from collections import deque

from tlaparse import parse_state, parse_value, undot, to_jsonable

_NODE = re.compile(r'^(-?\d+) \[label="((?:[^"\\]|\\.)*)"')
_EDGE = re.compile(r'^(-?\d+) -> (-?\d+) \[label="((?:[^"\\]|\\.)*)"')


def parse_label(lbl):
    """'QSetCount(2)' -> ('QSetCount', [2]);  'QReset' -> ('QReset', [])"""
    m = re.match(r'^(\w+)(?:\((.*)\))?$', lbl, re.S)
    if not m:
        return lbl, []
    name, args = m.group(1), m.group(2)
    if args is None or args.strip() == "":
        return name, []
    v = parse_value("<<" + args + ">>")
    return name, to_jsonable(list(v))


class Graph:
    def __init__(self):
        self.ids = {}        # dot id -> index
        self.nodes = []      # index -> state dict (jsonable)
        self.inits = []      # indices
        self.edges = []      # (src, dst, name, args)
        self.out = []        # index -> list of edge indices

    def node_index(self, dot_id):
        i = self.ids.get(dot_id)
        if i is None:
            i = len(self.nodes)
            self.ids[dot_id] = i
            self.nodes.append(None)
            self.out.append([])
        return i


def load_dot(path):
    g = Graph()
    seen_edges = set()
    with open(path, encoding="utf-8", errors="replace") as f:
        for line in f:
            m = _EDGE.match(line)
            if m:
                s = g.node_index(m.group(1))
                d = g.node_index(m.group(2))
                lbl = undot(m.group(3))
                key = (s, d, lbl)
                if key in seen_edges:
                    continue
                seen_edges.add(key)
                name, args = parse_label(lbl)
                g.out[s].append(len(g.edges))
                g.edges.append((s, d, name, args))
                continue
            m = _NODE.match(line)
            if m:
                i = g.node_index(m.group(1))
                if g.nodes[i] is None:
                    g.nodes[i] = to_jsonable(parse_state(undot(m.group(2))))
                if "style = filled" in line:
                    if i not in g.inits:
                        g.inits.append(i)
    return g


def cover_paths(g, max_len=300, seed=0, max_paths=None, edge_filter=None):
    """Greedy edge cover: paths (lists of edge indices) starting at initial states."""
    rnd = random.Random(seed)
    uncovered = set(i for i, e in enumerate(g.edges) if edge_filter is None or edge_filter(e))
    unc_out = [0] * len(g.nodes)
    for i in uncovered:
        unc_out[g.edges[i][0]] += 1
    paths = []
    total = len(uncovered)

    def bfs(start):
        # shortest path (edge list) from start to a node with an uncovered out-edge
        if unc_out[start] > 0:
            return []
        prev = {start: None}
        dq = deque([start])
        while dq:
            u = dq.popleft()
            for ei in g.out[u]:
                v = g.edges[ei][1]
                if v in prev:
                    continue
                prev[v] = ei
                if unc_out[v] > 0:
                    p = []
                    while prev[v] is not None:
                        p.append(prev[v])
                        v = g.edges[prev[v]][0]
                    p.reverse()
                    return p
                dq.append(v)
        return None

    inits = list(g.inits)
    while uncovered:
        if max_paths is not None and len(paths) >= max_paths:
            break
        rnd.shuffle(inits)
        start = None
        approach = None
        for i in inits:
            p = bfs(i)
            if p is not None:
                start, approach = i, p
                break
        if start is None:
            break  # the rest is unreachable (cannot happen for a TLC graph)
        path = list(approach)
        cur = g.edges[path[-1]][1] if path else start
        for ei in path:
            if ei in uncovered:
                uncovered.discard(ei)
                unc_out[g.edges[ei][0]] -= 1
        while len(path) < max_len:
            cand = [ei for ei in g.out[cur] if ei in uncovered]
            if cand:
                ei = rnd.choice(cand)
                uncovered.discard(ei)
                unc_out[cur] -= 1
                path.append(ei)
                cur = g.edges[ei][1]
                continue
            p = bfs(cur)
            if p is None or len(path) + len(p) >= max_len:
                break
            for ei in p:
                if ei in uncovered:
                    uncovered.discard(ei)
                    unc_out[g.edges[ei][0]] -= 1
                path.append(ei)
            cur = g.edges[path[-1]][1] if path else cur
        if not path:
            break
        paths.append((start, path))
    return paths, total - len(uncovered), total


def write_walk(g, paths, out_path, meta=None):
    with open(out_path, "w") as f:
        json.dump({"meta": meta or {},
                   "nodes": g.nodes,
                   "edges": [[s, d, n, a] for (s, d, n, a) in g.edges],
                   "paths": [{"init": s, "edges": p} for (s, p) in paths]}, f, separators=(",", ":"))
