"""Engine E4: run scenarios on the real stack (child processes of the harness binary),
collect traces, validate them (E3) and turn rejections into verdicts."""
import json
import os
import shutil
import subprocess
import time

import tracecheck
import traceprep
from common import BUILD, Inconclusive, goenv, log


def run_batch(scenarios, workdir, timeout_per=60, procs=6):
    """Run scenarios in `procs` concurrent harness processes."""
    if procs <= 1 or len(scenarios) < 2 * procs:
        return _run_batch1(scenarios, workdir, timeout_per)
    from concurrent.futures import ThreadPoolExecutor
    parts = [scenarios[i::procs] for i in range(procs)]
    outdir = os.path.join(workdir, "out")
    os.makedirs(outdir, exist_ok=True)
    with ThreadPoolExecutor(max_workers=procs) as ex:
        res = list(ex.map(lambda ip: _run_batch1(ip[1], os.path.join(workdir, "p%d" % ip[0]), timeout_per), enumerate(parts)))
    outcomes = {}
    for oc, od in res:
        outcomes.update(oc)
        for f in os.listdir(od):
            if f not in ("outcomes.ndjson", "current"):
                shutil.move(os.path.join(od, f), os.path.join(outdir, f))
    return outcomes, outdir


def _run_batch1(scenarios, workdir, timeout_per=60):
    """Run scenarios through `vh run`; returns {id: outcome dict}.  A crash of the child is
    attributed to the scenario that was running and the batch continues in a new child."""
    os.makedirs(workdir, exist_ok=True)
    scf = os.path.join(workdir, "scenarios.json")
    with open(scf, "w") as f:
        json.dump(scenarios, f)
    outdir = os.path.join(workdir, "out")
    shutil.rmtree(outdir, ignore_errors=True)
    os.makedirs(outdir)
    start = 0
    crashes = {}
    n = len(scenarios)
    guard = 0
    while start < n:
        guard += 1
        if guard > n + 5:
            raise Inconclusive("scenario runner keeps restarting")
        try:
            # front-end scenarios run in the binary that has cmd/aws-lambda-rie's handlers linked in
            binary = "vhfe" if scenarios and scenarios[0].get("opt", {}).get("frontEnd") else "vh"
            p = subprocess.run([os.path.join(BUILD, binary), "run", "-in", scf, "-out", outdir, "-from", str(start)],
                               env=goenv(), stdout=subprocess.PIPE, stderr=subprocess.PIPE, text=True, errors="replace",
                               timeout=timeout_per * (n - start) + 60)
            rc, err = p.returncode, p.stderr
        except subprocess.TimeoutExpired as e:
            rc, err = -9, "runner timeout"
        cur = ""
        try:
            cur = open(os.path.join(outdir, "current")).read()
        except OSError:
            pass
        if rc == 0 and cur.endswith("finished"):
            break
        idx = int(cur.split()[0]) if cur else start
        if cur.endswith("restart"):
            start = idx
            continue
        # the child died while scenario idx was running
        sid = scenarios[idx]["id"] if idx < n else "?"
        crashes[sid] = {"id": sid, "status": "crash", "detail": err[-6000:], "rc": rc}
        with open(os.path.join(outdir, sid + ".crash.txt"), "w") as f:
            f.write(err)
        start = idx + 1
    outcomes = {}
    of = os.path.join(outdir, "outcomes.ndjson")
    if os.path.exists(of):
        for line in open(of):
            o = json.loads(line)
            outcomes[o["id"]] = o
    outcomes.update(crashes)
    return outcomes, outdir


def load_trace(outdir, sid):
    p = os.path.join(outdir, sid + ".ndjson")
    if not os.path.exists(p):
        # the process died: what it streamed until then
        p = os.path.join(outdir, sid + ".partial.ndjson")
    if not os.path.exists(p):
        return None
    return traceprep.load_ndjson(p)


def run_and_validate(ctx, scenarios, tag, bound=None, batch=12, module="Trace_Rapid", cfg="Trace_Rapid.cfg",
                     crash_is_violation=True, timeout_per=60):
    """Run + validate.  Returns a summary dict; records violations in ctx."""
    t0 = time.time()
    work = ctx.tmpdir("verif-run-")
    outcomes, outdir = run_batch(scenarios, work, timeout_per=timeout_per)
    byid = {s["id"]: s for s in scenarios}
    items = []
    summary = {"scenarios": len(scenarios), "done": 0, "hang": 0, "crash": 0, "error": 0, "accepted": 0, "rejected": 0,
               "events": 0, "tlc_states": 0, "tlc_generated": 0}
    for sid, o in outcomes.items():
        summary[o["status"]] = summary.get(o["status"], 0) + 1
    missing = [s["id"] for s in scenarios if s["id"] not in outcomes]
    if missing:
        raise Inconclusive("no outcome for scenarios %s" % missing[:5])
    errs = [o for o in outcomes.values() if o["status"] == "error"]
    if errs:
        raise Inconclusive("harness error in scenario %s: %s" % (errs[0]["id"], errs[0].get("detail")))
    for s in scenarios:
        o = outcomes[s["id"]]
        evs = load_trace(outdir, s["id"])
        if o["status"] == "crash":
            evs = evs or []
            rd = ctx.replay_dir("%s-%s" % (tag, s["id"]))
            _store(rd, ctx.prop, s, evs, extra={"crash": o.get("detail", "")})
            what = "the emulator process died in scenario %s: %s" % (s["id"], _panic_line(o.get("detail", "")))
            kf = ctx.known_matching(lambda m: m.get("kind") == "crash" and m.get("panic_contains", "\0") in o.get("detail", "")
                                    and s.get("meta", {}).get("family") == m.get("family", s.get("meta", {}).get("family")))
            if kf:
                ctx.known_finding(kf, what)
            elif crash_is_violation:
                ctx.violation(rd, what)
            continue
        if evs is None:
            raise Inconclusive("no trace for %s" % s["id"])
        items.append((s, evs))
    # validate in batches
    nrej = 0
    chunks = [items[i:i + batch] for i in range(0, len(items), batch)]
    from concurrent.futures import ThreadPoolExecutor
    with ThreadPoolExecutor(max_workers=6) as ex:
        verdicts = list(ex.map(lambda ch: tracecheck.validate(ch, module=module, cfg=cfg, bound=bound,
                                                              explain_dir=os.path.join(work, "explain")), chunks))
    timeouts = []
    for chunk, v in zip(chunks, verdicts):
        timeouts += v.timeouts
        if v.error:
            raise Inconclusive("trace validation failed to run: %s" % v.error[-3000:])
        summary["accepted"] += len(v.accepted)
        summary["rejected"] += len(v.rejected)
        nrej += len(v.rejected)
        summary["events"] += v.events
        summary["tlc_states"] += v.tlc_states
        summary["tlc_generated"] += v.tlc_generated
        for sid in v.accepted:
            for flag in sorted(v.flags.get(sid, ())):
                s = byid[sid]
                what = ("property predicate %s (spec/Rapid.tla, PropHolds) fails in the behaviour of the specification that "
                        "explains the trace of scenario %s (family %s)" % (flag, sid, s.get("meta", {}).get("family")))
                sched = s.get("meta", {}).get("schedule")
                fl = lambda m: flag == m.get("flag") or flag in (m.get("flags") or [])
                # a finding recorded for this forced schedule first, then the ones recorded for the flag alone
                # (a finding recorded for one or several forced schedules is only recognised there: the same flag anywhere
                #  else is a violation)
                hist = _history_classes(dict((x[0]["id"], x[1]) for x in chunk)[sid])
                kf = (ctx.known_matching(lambda m: m.get("kind") == "flag" and fl(m) and sched
                                         and (m.get("schedule") == sched or sched in (m.get("schedules") or [])))
                      or ctx.known_matching(lambda m: m.get("kind") == "flag" and fl(m) and hist & set(m.get("histories") or []))
                      or ctx.known_matching(lambda m: m.get("kind") == "flag" and fl(m) and "schedule" not in m and "schedules" not in m
                                            and "histories" not in m))
                summary.setdefault("flags", {}).setdefault(flag, []).append(sid)
                if kf:
                    ctx.known_finding(kf, what)
                else:
                    rd = ctx.replay_dir("%s-%s" % (tag, sid))
                    evs = dict((x[0]["id"], x[1]) for x in chunk)[sid]
                    _store(rd, ctx.prop, s, evs, extra={"flag": flag})
                    ctx.violation(rd, what)
        for sid, idx, unmatched, detail in v.rejected:
            s = byid[sid]
            rd = ctx.replay_dir("%s-%s" % (tag, sid))
            evs = dict((x[0]["id"], x[1]) for x in chunk)[sid]
            _store(rd, ctx.prop, s, evs, extra={"unmatched": unmatched, "line": idx})
            if detail and os.path.exists(detail):
                shutil.copy(detail, os.path.join(rd, "tlc.txt"))
            what = "trace of scenario %s is not a behaviour of the specification: no action explains event #%d %s" % (
                sid, (unmatched or {}).get("src", -1), _short(unmatched))
            kf = ctx.known_matching(lambda m: m.get("kind") == "reject" and m.get("family") == s.get("meta", {}).get("family")
                                    and _match_event(m.get("event", {}), unmatched))
            if kf:
                ctx.known_finding(kf, what)
            else:
                ctx.violation(rd, what)
    # front-end scenarios: the events of cmd/aws-lambda-rie's handler are validated against spec/Trace_FrontEnd.tla
    fe_items = [(s, e) for s, e in items if s.get("opt", {}).get("frontEnd")]
    if fe_items:
        import feprep
        fv = feprep.validate(fe_items)
        if fv.error:
            raise Inconclusive("front-end trace validation failed to run: %s" % fv.error[-2000:])
        timeouts += fv.timeouts
        log("E3 front end: %d traces, %d accepted, %d rejected (spec/Trace_FrontEnd.tla)" % (len(fe_items), len(fv.accepted), len(fv.rejected)))
        summary["fe_accepted"] = len(fv.accepted)
        summary["fe_rejected"] = len(fv.rejected)
        summary["tlc_states"] += fv.tlc_states
        summary["tlc_generated"] += fv.tlc_generated
        for sid, idx, unmatched, detail in fv.rejected:
            s = byid[sid]
            rd = ctx.replay_dir("%s-fe-%s" % (tag, sid))
            evs = dict((x[0]["id"], x[1]) for x in fe_items)[sid]
            _store(rd, ctx.prop, s, evs, extra={"unmatched": unmatched, "line": idx, "mode": "frontend"})
            ctx.violation(rd, "front-end trace of scenario %s is not a behaviour of spec/FrontEnd.tla: no step of the handler "
                              "explains event #%d %s" % (sid, (unmatched or {}).get("src", -1), _short(unmatched)))
    summary["validation_timeouts"] = timeouts
    hangs = [o for o in outcomes.values() if o["status"] == "hang"]
    summary["wall_s"] = round(time.time() - t0, 1)
    summary["hang_ids"] = [o["id"] for o in hangs][:10]
    return summary, outcomes, outdir


def _match_event(pattern, ev):
    if ev is None:
        return False
    return all(ev.get(k) == v for k, v in pattern.items())


def _panic_line(text):
    for l in text.splitlines():
        if l.startswith("panic:") or "fatal error" in l or "level=panic" in l:
            return l[:300]
    return text[-300:]


def _history_classes(evs):
    """classes of the recorded history that a recorded finding may name (KNOWN_FINDINGS.json, match.histories):
    timeout-before-dispatch: an invocation ran into the function timeout before its event had been delivered to the
    runtime (the environment was still being initialised for it)"""
    out = set()
    open_k = {}
    for ev in evs:
        k = ev.get("ev")
        if k == "InvokeCall":
            open_k[ev.get("k")] = False
        elif k == "NextRet" and ev.get("who") == "rt" and ev.get("kind") == "INVOKE" and ev.get("status") == 200:
            for kk in open_k:
                open_k[kk] = True
        elif k == "InvokeRet":
            if ev.get("err") == "InvokeTimeout" and open_k.get(ev.get("k")) is False:
                out.add("timeout-before-dispatch")
            open_k.pop(ev.get("k"), None)
    return out


def _short(ev):
    if not ev:
        return "<end of trace>"
    keys = ["e", "who", "api", "cid", "status", "et", "kind", "inv", "pl", "base", "gen", "pk", "caller", "k", "out", "body", "tk", "phase", "reason", "net"]
    return json.dumps({k: ev[k] for k in keys if k in ev and ev[k] not in ("", 0, [], None)})


def _store(rd, prop, scenario, raw_events, extra=None):
    with open(os.path.join(rd, "scenario.json"), "w") as f:
        json.dump(scenario, f, indent=1)
    traceprep.write_ndjson(os.path.join(rd, "trace.ndjson"), raw_events)
    meta = {"property": prop, "engine": "scenario", "scenario": "scenario.json"}
    if extra:
        meta.update(extra)
    with open(os.path.join(rd, "replay.json"), "w") as f:
        json.dump(meta, f, indent=1, default=str)
