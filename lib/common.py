"""Shared plumbing of the checks: context, Go build, evidence, findings, verdicts."""
import json
import os
import shutil
import subprocess
import sys
import tempfile
import time

VERIF = os.path.dirname(os.path.dirname(os.path.abspath(__file__)))
REPO = os.environ.get("VERIF_REPO", "/repo")
# The registered commands use /repo, /verif/build and /verif/evidence.  Development runs against a scratch worktree
# (tools/seedmatrix.py: seeded changes, several at a time) redirect all three through the environment.
BUILD = os.environ.get("VERIF_BUILD", os.path.join(VERIF, "build"))
EVIDENCE = os.environ.get("VERIF_EVIDENCE", os.path.join(VERIF, "evidence"))
REPLAY = os.path.join(EVIDENCE, "replay")
HARNESS = os.path.join(VERIF, "harness")
FINDINGS_FILE = os.path.join(VERIF, "KNOWN_FINDINGS.json")

GOENV = {"GOFLAGS": "-mod=mod", "GOPROXY": "off", "GOSUMDB": "off", "GOTOOLCHAIN": "local"}


class Inconclusive(Exception):
    """Tool failure, timeout, dead driver, vacuous configuration: exit 2, never a violation."""


def goenv():
    e = dict(os.environ)
    e.update(GOENV)
    return e


def log(*a):
    print(*a, flush=True)


def build_harness(tags="verif"):
    """(Re)build the harness binaries against the repository's current working tree (REPO, default /repo), hooks on."""
    os.makedirs(BUILD, exist_ok=True)
    modargs = []
    if os.path.abspath(REPO) == "/repo":
        shutil.copy(os.path.join(REPO, "go.sum"), os.path.join(HARNESS, "go.sum"))
    else:
        # alternative repository: same module file with the replace directive pointing there
        mod = open(os.path.join(HARNESS, "go.mod")).read().replace("=> /repo", "=> " + os.path.abspath(REPO))
        mf = os.path.join(BUILD, "go.alt.mod")
        with open(mf, "w") as f:
            f.write(mod)
        shutil.copy(os.path.join(REPO, "go.sum"), os.path.join(BUILD, "go.alt.sum"))
        modargs = ["-modfile=" + mf]
    out = os.path.join(BUILD, "vh")
    cmd = ["go", "build"] + modargs + ["-tags", tags, "-o", out, "./cmd/vh"]
    p = subprocess.run(cmd, cwd=HARNESS, env=goenv(), stdout=subprocess.PIPE, stderr=subprocess.STDOUT, text=True)
    if p.returncode != 0:
        raise Inconclusive("harness build failed:\n" + p.stdout[-4000:])
    # vhfe: the scenario runner with the emulator's HTTP front end linked in.  The files of package main in
    # <repo>/cmd/aws-lambda-rie are compiled into harness/cmd/vhfe through a build overlay, unchanged.
    ov = os.path.join(BUILD, "fe-overlay.json")
    fe = os.path.join(HARNESS, "cmd", "vhfe")
    with open(ov, "w") as f:
        json.dump({"Replace": {os.path.join(fe, "zz_repo_handlers.go"): os.path.join(REPO, "cmd", "aws-lambda-rie", "handlers.go"),
                               os.path.join(fe, "zz_repo_util.go"): os.path.join(REPO, "cmd", "aws-lambda-rie", "util.go")}}, f)
    cmd = ["go", "build"] + modargs + ["-tags", tags, "-overlay", ov, "-o", os.path.join(BUILD, "vhfe"), "./cmd/vhfe"]
    p = subprocess.run(cmd, cwd=HARNESS, env=goenv(), stdout=subprocess.PIPE, stderr=subprocess.STDOUT, text=True)
    if p.returncode != 0:
        raise Inconclusive("front-end harness build failed:\n" + p.stdout[-4000:])
    return out


def load_findings():
    if not os.path.exists(FINDINGS_FILE):
        return []
    with open(FINDINGS_FILE) as f:
        return json.load(f).get("findings", [])


class Ctx:
    def __init__(self, prop, tier, seed):
        self.prop = prop
        self.tier = tier
        self.seed = seed
        self.t0 = time.time()
        self.violations = []     # (replay_path, what)
        self.known = []          # (finding id, what)
        self.coverage = {}
        self.assumptions = []
        self.level = "model_checking"
        self.findings = [f for f in load_findings() if f.get("property") == prop or prop in f.get("also_seen_by", [])]
        self._tmp = []

    @property
    def quick(self):
        return self.tier == "quick"

    def tmpdir(self, prefix="verif-"):
        d = tempfile.mkdtemp(prefix=prefix)
        self._tmp.append(d)
        return d

    def cleanup(self):
        for d in self._tmp:
            shutil.rmtree(d, ignore_errors=True)
        self._tmp = []

    def replay_dir(self, name):
        d = os.path.join(REPLAY, self.prop, name)
        shutil.rmtree(d, ignore_errors=True)
        os.makedirs(d, exist_ok=True)
        return d

    def known_matching(self, pred):
        """Return the first finding of kind 'known' for which pred(match) holds."""
        for f in self.findings:
            if f.get("kind") == "known":
                try:
                    if pred(f.get("match", {})):
                        return f
                except Exception:
                    pass
        return None

    def violation(self, replay_path, what):
        self.violations.append((replay_path, what))

    def known_finding(self, f, what=None):
        key = (f["id"], what or f.get("what", ""))
        if key not in self.known:
            self.known.append(key)

    def add_tlc(self, res, name):
        """Accumulate TLC statistics into the coverage record; raise on tool failure."""
        runs = self.coverage.setdefault("tlc_runs", [])
        runs.append(dict(res.summary(), config=name))
        self.coverage["states"] = self.coverage.get("states", 0) + res.distinct
        self.coverage["transitions"] = self.coverage.get("transitions", 0) + res.generated
        if res.error:
            raise Inconclusive("TLC %s: %s\n%s" % (name, res.error, res.out[-3000:]))

    def write_evidence(self):
        os.makedirs(EVIDENCE, exist_ok=True)
        cov = dict(self.coverage)
        cov.setdefault("samples", [])
        ev = {
            "property_id": self.prop,
            "tier": self.tier,
            "seed": self.seed,
            "level": self.level,
            "coverage": cov,
            "assumptions": self.assumptions,
            "wall_s": round(time.time() - self.t0, 2),
            "violations": len(self.violations),
            "known_findings": [k[0] for k in self.known],
        }
        with open(os.path.join(EVIDENCE, self.prop + ".json"), "w") as f:
            json.dump(ev, f, indent=1, default=str)
            f.write("\n")


def run_vh(args, timeout=600, env_extra=None, stdin=None):
    """Run the harness binary; a crash or a timeout of the driver is inconclusive."""
    env = goenv()
    if env_extra:
        env.update(env_extra)
    try:
        p = subprocess.run([os.path.join(BUILD, "vh")] + list(args), env=env, stdout=subprocess.PIPE,
                           stderr=subprocess.PIPE, text=True, timeout=timeout, input=stdin, errors="replace")
    except subprocess.TimeoutExpired:
        raise Inconclusive("harness timed out: vh %s" % " ".join(args))
    return p


def main_for(prop, run_fn):
    import argparse
    ap = argparse.ArgumentParser()
    ap.add_argument("--tier", default=os.environ.get("VERIF_TIER", "quick"), choices=["quick", "thorough"])
    ap.add_argument("--seed", type=int, default=int(os.environ.get("VERIF_SEED", "1") or 1))
    a = ap.parse_args(sys.argv[2:])
    return execute(prop, run_fn, a.tier, a.seed)


def execute(prop, run_fn, tier, seed):
    ctx = Ctx(prop, tier, seed)
    rc = 0
    try:
        run_fn(ctx)
    except Inconclusive as e:
        log("INCONCLUSIVE property=%s %s" % (prop, e))
        rc = 2
    except Exception as e:  # harness bug: inconclusive, never a violation
        import traceback
        traceback.print_exc()
        log("INCONCLUSIVE property=%s internal error: %r" % (prop, e))
        rc = 2
    finally:
        ctx.cleanup()
    for fid, what in ctx.known:
        log("KNOWN-FINDING: property=%s %s %s" % (prop, fid, what))
    for path, what in ctx.violations:
        log("violation detail: %s" % what)
        log("VIOLATION property=%s replay=%s" % (prop, path))
    if ctx.violations:
        rc = 1
    if rc != 2 or ctx.coverage:
        try:
            ctx.write_evidence()
        except Exception as e:
            log("could not write evidence: %r" % e)
    log("RESULT property=%s tier=%s seed=%d exit=%d wall=%.1fs" % (prop, tier, seed, rc, time.time() - ctx.t0))
    return rc
