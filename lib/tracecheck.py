"""Engine E3: validate recorded traces against a trace specification with TLC."""
import json
import os
import re
import shutil

import tlc
import traceprep


class Verdict:
    def __init__(self):
        self.accepted = []     # scenario ids
        self.rejected = []     # (scenario id, line index within its projected trace, unmatched event, tlc output tail)
        self.events = 0
        self.tlc_states = 0
        self.tlc_generated = 0
        self.tlc_runs = 0
        self.error = None
        self.skipped = 0
        self.timeouts = []     # scenario ids whose validation did not finish (inconclusive)
        self.flags_run = {}
        self.flags_done = set()
        self.flags = {}        # scenario id -> names of the properties (Rapid!PropHolds) that failed in the
                               # behaviour explaining its trace (intersection over all behaviours TLC reported)


def _run(module, cfg, events, timeout, hwm=None, keep=False):
    scratch = tlc.make_scratch("verif-trace-")
    path = os.path.join(scratch, "trace.ndjson")
    traceprep.write_ndjson(path, events)
    cfgp = cfg
    if hwm is not None:
        # debugging configuration: print a behaviour that reaches the rejection point
        src = open(os.path.join(tlc.SPEC, cfg)).read()
        src = re.sub(r"HWM = \d+", "HWM = %d" % hwm, src)
        src = src.replace("POSTCONDITION TraceAccepted", "INVARIANT NotReached")
        cfgp = os.path.join(scratch, "dbg.cfg")
        open(cfgp, "w").write(src)
    r = tlc.run_tlc(module, cfgp, workers=1, timeout=timeout, scratch=scratch, dfs=True, heap="4g")
    if not keep:
        shutil.rmtree(scratch, ignore_errors=True)
    return r


def validate(items, module="Trace_Rapid", cfg="Trace_Rapid.cfg", timeout=240, bound=None, explain_dir=None, max_reject=4,
             _projected=None):
    """items: list of (scenario dict, raw event list).  Returns a Verdict.
    All traces are checked in one TLC run; on rejection the offending trace is isolated,
    reported and the remaining traces are re-checked."""
    v = Verdict()
    projected = _projected if _projected is not None else [(sc, traceprep.project(evs, sc, bound=bound)) for sc, evs in items]
    todo = list(projected)
    while todo:
        allev = []
        starts = []
        for sc, evs in todo:
            starts.append(len(allev) + 1)
            allev.extend(evs)
        r = _run(module, cfg, allev, timeout)
        v.tlc_runs += 1
        v.tlc_states += r.distinct
        v.tlc_generated += r.generated
        if r.error and r.error.startswith("timeout"):
            # the search did not finish: split the batch; a single trace that does not finish is inconclusive
            if len(todo) == 1:
                v.timeouts.append(todo[0][0].get("id"))
                return v
            half = len(todo) // 2
            for part in (todo[:half], todo[half:]):
                sub = validate([(sc, None) for sc, _ in part], module, cfg, max(60, timeout // 2), bound, explain_dir,
                               max_reject, _projected=part)
                v.accepted += sub.accepted
                v.flags.update(sub.flags)
                v.rejected += sub.rejected
                v.timeouts += sub.timeouts
                v.events += sub.events
                v.tlc_states += sub.tlc_states
                v.tlc_generated += sub.tlc_generated
                v.tlc_runs += sub.tlc_runs
                if sub.error:
                    v.error = sub.error
                    return v
            return v
        if r.error and "TRACE-REJECTED" not in r.out and '"hw"' not in r.out:
            v.error = "%s\n%s" % (r.error, r.out[-3000:])
            return v
        hws = [int(x) for x in re.findall(r'"hw", (\d+)', r.out)]
        hw = max(hws) if hws else 1
        for m in re.finditer(r'<<"flags", "([^"]*)", \{([^}]*)\}>>', r.out):
            names = set(re.findall(r'"([^"]+)"', m.group(2)))
            sid = m.group(1)
            if sid and sid not in v.flags_done:
                v.flags_run.setdefault(sid, []).append(names)
        for sid, sets in v.flags_run.items():
            v.flags[sid] = set.intersection(*sets)
            v.flags_done.add(sid)
        v.flags_run = {}
        if hw >= len(allev) + 1:
            v.accepted += [sc.get("id") for sc, _ in todo]
            v.events += len(allev)
            return v
        if r.rc != 0 and "TRACE-REJECTED" not in r.out:
            v.error = "TLC rc=%s without verdict\n%s" % (r.rc, r.out[-3000:])
            return v
        line = hw
        # which trace contains that line?
        idx = max(i for i, s in enumerate(starts) if s <= line)
        sc, evs = todo[idx]
        local = line - starts[idx]       # 0-based index into evs
        unmatched = evs[local] if local < len(evs) else None
        detail = ""
        if explain_dir is not None:
            os.makedirs(explain_dir, exist_ok=True)
            base = os.path.join(explain_dir, str(sc.get("id")))
            traceprep.write_ndjson(base + ".projected.ndjson", evs)
            # behaviour of the specification up to the rejection point
            r2 = _run(module, cfg, evs, timeout, hwm=local + 1)
            with open(base + ".tlc.txt", "w") as f:
                f.write(r2.out[-200000:])
            detail = base + ".tlc.txt"
        v.rejected.append((sc.get("id"), local, unmatched, detail))
        if len(v.rejected) >= max_reject:
            v.skipped = len(todo) - idx - 1
            v.accepted += [s.get("id") for s, _ in todo[:idx]]
            v.events += starts[idx] - 1
            return v
        v.accepted += [s.get("id") for s, _ in todo[:idx]]
        v.events += starts[idx] - 1
        todo = todo[idx + 1:]
    return v
