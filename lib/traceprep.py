"""Projection of recorded ndjson traces (harness/rec) onto the event vocabulary of
spec/Trace_Rapid.tla.  Every output event has the same set of fields so that the
trace specification can read any field of any event."""
import json
import re

BLANK = {
    "e": "", "who": "", "cid": 0, "api": "", "id": 0, "body": ["empty", ""], "big": False, "large": False, "slow": False, "detc": False, "relrec": False, "rel": 0, "mode": "", "et": "",
    "name": "", "events": [], "idc": "ok", "agen": 0, "which": "", "feat": False,
    "status": 0, "kind": "", "inv": 0, "pl": 0, "reason": "", "net": "",
    "base": "", "gen": 0, "pk": "", "err": "", "cause": "",
    "caller": 0, "k": 0, "out": "",
    "tk": "", "phase": "", "lines": [], "ph": "", "point": "",
    "files": [], "lf": [], "sid": "", "src": 0, "t": 0, "dur": 0, "timeoutMs": 0, "strict": True,
}

MAX_PAYLOAD = 6 * 1024 * 1024 + 100


def body_label(lbl):
    """'r17' -> ['r','17'], 'p3' -> ['p','3'], 'err:X' -> ['err','X'], 'empty' -> ['empty','']"""
    if lbl is None or lbl == "":
        return ["empty", ""]
    m = re.match(r"^([rpc])(\d+)$", lbl)
    if m:
        return [m.group(1), m.group(2)]
    if ":" in lbl:
        a, b = lbl.split(":", 1)
        return [a, b]
    return [lbl, ""]


def who_of(actor):
    if actor == "rt":
        return "rt"
    if actor.startswith("ext:") or actor.startswith("int:"):
        return actor[4:]
    return actor


CALLS = {"CredsCall": "creds", "NextCall": "next", "RespCall": "response", "ErrCall": "error", "InitErrCall": "initerror",
         "RegisterCall": "register", "ExtInitErrCall": "exterror", "ExtExitErrCall": "exterror",
         "RestoreNextCall": "restorenext", "RestoreErrCall": "restoreerror", "RouteCall": "route"}
RETS = {"CredsRet", "NextRet", "RespRet", "ErrRet", "InitErrRet", "RegisterRet", "ExtInitErrRet", "ExtExitErrRet",
        "RestoreNextRet", "RestoreErrRet", "RouteRet"}

# abstraction of request paths to the routes of the specification's route table (Rapid!RouteMethod)
ROUTE_IDS = [
    (r"/2018-06-01/ping", "ping"),
    (r"/2018-06-01/runtime/invocation/next", "next"),
    (r"/2018-06-01/runtime/invocation/[^/]+/response", "response"),
    (r"/2018-06-01/runtime/invocation/[^/]+/error", "error"),
    (r"/2018-06-01/runtime/init/error", "initerror"),
    (r"/2018-06-01/runtime/restore/next", "restorenext"),
    (r"/2018-06-01/runtime/restore/error", "restoreerror"),
    (r"/2020-01-01/extension/register", "register"),
    (r"/2020-01-01/extension/event/next", "extnext"),
    (r"/2020-01-01/extension/init/error", "extiniterror"),
    (r"/2020-01-01/extension/exit/error", "extexiterror"),
    (r"/2020-08-15/logs", "logs"),
    (r"/2022-07-01/telemetry", "telemetry"),
    (r"/2021-04-23/credentials", "creds"),
]


def route_id(path):
    for pat, rid in ROUTE_IDS:
        if re.fullmatch(pat, path):
            return rid
    return "unknown"


VALID_ET = re.compile(r"^(Runtime|Function)\.[A-Z][a-zA-Z]+$")


def suffix_after(raw_events, mark_name):
    """Events recorded after the driver's mark `mark_name`, renumbered as if they came from a fresh
    instance: process generations and invocation ordinals start again at 1 (property C08)."""
    idx = None
    for i, ev in enumerate(raw_events):
        if ev.get("ev") == "Mark" and ev.get("name") == mark_name:
            idx = i
    if idx is None:
        return None
    pre, suf = raw_events[:idx], raw_events[idx + 1:]
    # the first init of a fresh instance runs as generation 1
    gens = [ev.get("gen", 0) for ev in suf if ev.get("ev") == "Exec"]
    g0 = (min(gens) - 1) if gens else 0
    k0 = max([ev.get("k", 0) for ev in pre if ev.get("ev") == "InvokeCall"] + [0])
    out = []
    import copy
    for ev in suf:
        e = copy.deepcopy(ev)
        if "gen" in e and isinstance(e["gen"], int) and e["gen"] > 0:
            e["gen"] = e["gen"] - g0
        if e.get("ev") in ("InvokeCall", "InvokeRet"):
            e["k"] = e["k"] - k0
            if re.match(r"^p\d+$", e.get("payload", "") or ""):
                e["payload"] = "p%d" % (int(e["payload"][1:]) - k0) if int(e["payload"][1:]) > k0 else e["payload"] + "x"
        if e.get("ev") == "NextRet" and e.get("kind") == "INVOKE":
            m = re.search(r":k(\d+)$", e.get("arn", "") or "")
            if m:
                e["arn"] = e["arn"][:m.start()] + ":k%d" % (int(m.group(1)) - k0)
            if re.match(r"^p\d+$", e.get("payload", "") or "") and int(e["payload"][1:]) > k0:
                e["payload"] = "p%d" % (int(e["payload"][1:]) - k0)
        if e.get("ev") == "InvokeMsg":
            # the identity string names the generation of the runtime: renumbered too; one of before the mark stays foreign
            m = re.match(r"^vrt-g(\d+)/1\.0$", e.get("release", "") or "")
            if m:
                e["release"] = "vrt-g%d/1.0" % (int(m.group(1)) - g0) if int(m.group(1)) > g0 else "vrt-before-the-reset"
        if e.get("ev") in ("NextCall", "ExtInitErrCall", "ExtExitErrCall") and "idgen" in e:
            pass
        out.append(e)
    return out


def sanitise(et):
    """the error-type grammar of C20 (exactly Runtime.X / Function.X), applied to what the runtime sent"""
    if VALID_ET.match(et or ""):
        return et
    return "Function.Unknown" if (et or "").startswith("Function.") else "Runtime.Unknown"


def project(raw_events, scenario, bound=None):
    """raw_events: list of dicts from the recorder; scenario: the scenario dict (for the header).
    Returns the list of projected events, starting with a Begin event."""
    opt = scenario.get("opt", {})
    files = sorted(e["name"] for e in opt.get("ext", []) if e.get("kind", "file") != "dir")
    lf = sorted(opt.get("launchFail", []))
    out = [dict(BLANK, e="Begin", feat=bool(opt.get("initCaching", False)), files=files, lf=lf, sid=scenario.get("id", ""), timeoutMs=opt.get("timeoutMs", 2000),
                kind=scenario.get("meta", {}).get("begin", ""),
                strict=not scenario.get("meta", {}).get("race", False))]

    # request id -> invocation ordinal, from what was rendered (the ARN carries ":k<k>")
    reqk = {}
    fe_mode = bool(opt.get("frontEnd"))
    for ev in raw_events:
        if ev.get("ev") == "InvokeCall" and ev.get("reqid"):
            reqk.setdefault(ev["reqid"], ev["k"])      # front-end mode: the id is made by the front end
    for ev in raw_events:
        if ev.get("ev") == "NextRet" and ev.get("kind") == "INVOKE":
            m = re.search(r":k(\d+)$", ev.get("arn", "") or "")
            if m and ev.get("reqid"):
                reqk.setdefault(ev["reqid"], int(m.group(1)))
    # front-end mode: the server reserves under an id of its own and writes it into the Invoke it was given; the
    # recording sandbox reports that id when the call returns
    for ev in raw_events:
        if ev.get("ev") == "InvokeRet" and ev.get("reqid2"):
            reqk.setdefault(ev["reqid2"], ev["k"])
    # fall back for ids never rendered: InvokeStart while exactly one invocation is in flight (callers that are refused
    # without ever being dispatched do not count)
    refused = set(ev["k"] for ev in raw_events if ev.get("ev") == "InvokeRet" and ev.get("err") == "AlreadyReserved")
    inflight = []
    for ev in raw_events:
        if ev.get("ev") == "InvokeCall":
            if ev["k"] not in refused:
                inflight.append(ev["k"])
        elif ev.get("ev") == "InvokeRet":
            if ev["k"] in inflight:
                inflight.remove(ev["k"])
        elif ev.get("ev") == "Tel" and ev.get("kind") == "InvokeStart":
            rid = ev.get("reqid", "")
            if rid and rid not in reqk and len(inflight) == 1:
                reqk[rid] = inflight[0]

    # per invocation: what the caller passed in, for the data checks of delivered events
    invinfo = {}
    inv_label = {}      # invocation ordinal -> label of its payload
    slow_cid = {}       # name of a slowly sent request body -> its call
    open_calls = []     # (cid, who, api) of the API calls that have not returned yet
    for ev in raw_events:
        if ev.get("ev") == "InvokeCall":
            invinfo[ev["k"]] = {"ctx": ev.get("ctx", ""), "trace": ev.get("trace", ""), "now": ev.get("nowMs", 0),
                                "seq": ev.get("seq", 0)}
    reserve_at = [(ev.get("seq", 0), ev.get("nowMs", 0)) for ev in raw_events if ev.get("ev") == "ReserveAt"]
    timeout_ms = opt.get("timeoutMs", 2000)

    def data_class(ev, k, is_rt):
        """'data-ok' iff ARN, deadline, client context / trace value of a delivered INVOKE event are right"""
        info = invinfo.get(k)
        if info is None:
            return "data-unknown-invocation"
        if not (ev.get("arn", "") or "").endswith(":function:test_function" if fe_mode else ":function:test_function:k%d" % k):
            return "data-bad-arn"
        try:
            dl = int(ev.get("deadlineMs") or 0)
        except ValueError:
            return "data-bad-deadline"
        # deadline = arrival time + function timeout, whenever the event is handed over
        # (one-sided slack for the harness' own time stamp taken just before Server.Invoke is entered)
        # lower bound: the harness' time stamp taken just before Server.Invoke is entered; upper bound: the time at
        # which a request goroutine reached Reserve (pause point server.beforeReserve, recorded by the harness)
        # between this invocation's arrival and the delivery, so that scheduling delays of the harness machine
        # between the two do not count
        lo = info["now"] + timeout_ms - 3
        later = [now for sq, now in reserve_at if info["seq"] < sq < ev.get("seq", 1 << 60)]
        hi = (max(later) if later else info["now"]) + timeout_ms + 25
        if not (lo <= dl <= hi):
            return "data-bad-deadline"
        if is_rt and (ev.get("ctx", "") or "") != info["ctx"]:
            return "data-bad-context"
        if not is_rt and (ev.get("trace", "") or "") != info["trace"]:
            return "data-bad-trace"
        return "data-ok"

    big_resp = set(ev.get("size", 0) for ev in raw_events if ev.get("ev") in ("RespCall", "InitErrCall") and ev.get("size", 0) > MAX_PAYLOAD)
    # invocation ordinal -> sizes of the oversized responses posted for its request id
    big_by_k = {}
    for ev in raw_events:
        if ev.get("ev") == "RespCall" and ev.get("size", 0) > MAX_PAYLOAD and reqk.get(ev.get("reqid", "")):
            big_by_k.setdefault(reqk[ev["reqid"]], set()).add(ev["size"])

    def caller_body(lbl, k=None):
        """the too-large error must state the size posted for this invocation and the limit"""
        if lbl and lbl.startswith("err:Function.ResponseSizeTooLarge"):
            parts = lbl.split("|")
            mine = big_by_k.get(k) or big_resp
            if len(parts) == 3 and parts[1].isdigit() and int(parts[1]) in mine and parts[2] == str(MAX_PAYLOAD):
                return ["err", "Function.ResponseSizeTooLarge"]
            return ["err", "Function.ResponseSizeTooLarge-wrong-sizes"]
        return body_label(lbl)

    pending_lines = None
    detached_cids = set()
    for ev in raw_events:
        kind = ev.get("ev")
        o = dict(BLANK, src=ev.get("seq", 0), t=ev.get("t", 0))
        # the extension status lines of one init are emitted back to back by one goroutine but other
        # actors' events may be recorded in between: they are merged and placed before the InitReport
        if kind == "Tel" and ev.get("kind") == "InitReport" and pending_lines is not None:
            out.append(pending_lines)
            pending_lines = None
        if kind == "InitCall":
            o["e"] = "InitCall"
        elif kind == "Exec":
            o.update(e="Exec", base=ev["base"], gen=ev["gen"], pk=ev["kind"], err=ev.get("err", ""))
            envm = ev.get("env")
            if opt.get("initCaching") and isinstance(envm, dict):
                # snapshot mode: credentials are served by token, never placed in the environment; the token is
                if any(k in envm for k in ("AWS_ACCESS_KEY_ID", "AWS_SECRET_ACCESS_KEY", "AWS_SESSION_TOKEN")):
                    o["err"] = "credentials-in-environment"
                elif ev["kind"] == "rt" and not envm.get("AWS_CONTAINER_AUTHORIZATION_TOKEN"):
                    o["err"] = "no-credentials-token-in-environment"
        elif kind == "NextCall" and ev.get("abortAfter") is not None:
            o.update(e="Call", cid=ev["seq"], who="rt", api="next", gen=ev.get("gen", 0), relrec=bool(opt.get("recordRelease")))
        elif kind in CALLS:
            o.update(e="Call", cid=ev["seq"], who=who_of(ev.get("who", ev["actor"])), api=CALLS[kind], gen=ev.get("gen", 0))
            o["relrec"] = bool(opt.get("recordRelease")) and o["who"] == "rt"
            open_calls.append((ev["seq"], o["who"], CALLS[kind]))
            if kind in ("RespCall", "ErrCall"):
                o["id"] = reqk.get(ev.get("reqid", ""), 0)
                o["body"] = body_label(ev.get("body"))
                o["big"] = ev.get("size", 0) > MAX_PAYLOAD
                o["et"] = ev.get("errType", "")
                o["mode"] = ev.get("mode", "") or ""
                if ev.get("detached"):
                    detached_cids.add(ev["seq"])        # sent by a helper that outlives the runtime process
                if ev.get("slow"):
                    o["slow"] = True
                    if not ev.get("abort"):     # an upload that breaks off never completes its body
                        slow_cid[ev["slow"]] = ev["seq"]
            elif kind == "InitErrCall":
                o["body"] = body_label(ev.get("body"))
                o["big"] = ev.get("size", 0) > MAX_PAYLOAD
                o["et"] = sanitise(ev.get("errType", ""))
            elif kind == "RegisterCall":
                o["name"] = ev.get("name", "")
                evs = ev.get("events") or []
                o["events"] = sorted(set(x if x in ("INVOKE", "SHUTDOWN") else "OTHER" for x in evs))
                o["big"] = bool(ev.get("rawBody"))
                o["feat"] = "accountId" in (ev.get("features") or "")
            elif kind == "RouteCall":
                o["name"] = route_id(ev.get("path", ""))
                o["which"] = ev.get("method", "")
            elif kind == "CredsCall":
                o["idc"] = ev.get("idc") or "ok"
            elif kind in ("RestoreErrCall",):
                o["et"] = sanitise(ev.get("errType", ""))
            elif kind == "NextCall" and o["who"] != "rt":
                o["idc"] = ev.get("idc") or "ok"
                o["agen"] = ev.get("idgen", 0)
            elif kind in ("ExtInitErrCall", "ExtExitErrCall"):
                o["which"] = "init" if kind == "ExtInitErrCall" else "exit"
                o["idc"] = ev.get("idc") or "ok"
                o["agen"] = ev.get("idgen", 0)
                o["et"] = ev.get("errType", "")
        elif kind in RETS:
            o.update(e="Ret", cid=ev.get("cid", 0), who=who_of(ev.get("who", ev["actor"])), status=ev.get("status", 0),
                     et=ev.get("errType", ""), net=ev.get("net", ""), gen=ev.get("gen", 0))
            o["detc"] = o["cid"] in detached_cids
            open_calls[:] = [c_ for c_ in open_calls if c_[0] != o["cid"]]
            if kind == "RegisterRet" and ev.get("status") == 200:
                good = (ev.get("fn") == "test_function" and ev.get("ver") == "$LATEST" and ev.get("handler") == "handler.fn"
                        and bool(ev.get("hasId")))
                o["reason"] = "meta-ok" if good else "meta-bad"
                o["kind"] = "acct" if ev.get("account") not in (None, "") else ""
                if o["kind"] == "acct" and ev.get("account") != opt.get("accountId", ""):
                    o["reason"] = "meta-bad"
            if kind == "CredsRet" and ev.get("status") == 200:
                o["reason"] = ev.get("creds", "")
            if kind == "NextRet":
                o["kind"] = ev.get("kind", "")
                o["inv"] = reqk.get(ev.get("reqid", ""), 0)
                o["reason"] = ev.get("reason", "")
                pl = ev.get("payload", "")
                m = re.match(r"^p(\d+)$", pl or "")
                if o["kind"] == "INVOKE":
                    o["reason"] = data_class(ev, o["inv"], o["who"] == "rt")
                if o["who"] == "rt" and o["kind"] == "INVOKE":
                    mc = re.match(r"^c(\d+)$", pl or "")
                    # p<k>: payload of invocation k; c<k>: that payload cut at the limit (-k); other bytes: -1000000
                    o["pl"] = int(m.group(1)) if m else (0 if pl == "empty" else (-int(mc.group(1)) if mc else -1000000))
                    if pl != "empty" and pl == inv_label.get(o["inv"]):
                        # the bytes of this invocation's own payload (a label other than p<k> when the same bytes were
                        # seen earlier in the run, e.g. a one-byte payload equal to an earlier one-byte response)
                        o["pl"] = o["inv"]
        elif kind == "InvokeMsg":
            # what rapid handed to the server as the result of the invocation: its kind and the generation of the runtime
            # whose identity string it carries (0: none, -1: something else)
            m = re.match(r"^vrt-g(\d+)/1\.0$", ev.get("release", "") or "")
            o.update(e="InvokeMsg", k=reqk.get(ev.get("reqid", ""), 0), kind=ev.get("kind", ""),
                     rel=int(m.group(1)) if m else (0 if not ev.get("release") else -1))
            if not o["k"]:
                continue
        elif kind == "InvokeCall":
            inv_label[ev["k"]] = ev.get("payload", "")
            o.update(e="InvokeCall", caller=ev["caller"], k=ev["k"],
                     pl=0 if ev.get("payload") == "empty" else ev["k"],
                     big=ev.get("size", 0) > MAX_PAYLOAD, large=ev.get("size", 0) > 64 * 1024)
        elif kind == "InvokeRet":
            o.update(e="InvokeRet", caller=ev["caller"], k=ev["k"], out=ev.get("err", ""), body=caller_body(ev.get("body"), ev.get("k")),
                     status=ev.get("status", 0), dur=ev.get("durMs", 0))
        elif kind == "ProcExit":
            if ev.get("cause") == "kill":
                continue        # the effect of the Kill request that precedes it
            o.update(e="ProcExit", base=ev["base"], gen=ev["gen"], pk=ev["kind"], cause=ev.get("cause", ""))
        elif kind == "ExitSend":
            o.update(e="ExitSend", base=ev["base"], gen=ev["gen"], pk=ev["kind"])
        elif kind == "ExitDelivered":
            # recorded after the watcher took the event, possibly later than the watcher's first reactions:
            # the delivery is an internal step of the specification
            continue
        elif kind == "Terminate":
            o.update(e="Terminate", base=ev.get("base", ""), gen=ev.get("gen", 0), pk=ev.get("kind", ""), err=ev.get("err", ""))
        elif kind == "KillCall":
            o.update(e="KillCall", base=ev.get("base", ""), gen=ev.get("gen", 0), pk=ev.get("kind", ""), err=ev.get("err", ""))
        elif kind == "KillRet" and ev.get("err") == "deadline":
            # the supervisor refused the request because the deadline it carried had already passed (the process is
            # still there): the emulator always gives the supervisor time to act - no action of the specification
            # corresponds to such a request
            o.update(e="KillRefused", base=ev.get("base", ""), gen=ev.get("gen", 0), pk=ev.get("kind", ""))
        elif kind == "Tel":
            tk = ev.get("kind")
            if tk == "ExtensionInit":
                line = {"name": ev["name"], "st": ev["state"], "subs": sorted(ev.get("subs") or []), "err": ev.get("errType", "")}
                if pending_lines is None:
                    pending_lines = dict(BLANK, e="Tel", tk="ExtensionInit", lines=[line], src=ev.get("seq", 0), t=ev.get("t", 0))
                else:
                    pending_lines["lines"].append(line)
                    pending_lines["t"] = ev.get("t", 0)
                continue
            if tk in ("InitStart", "InitRuntimeDone", "InitReport", "InvokeStart", "RuntimeDone"):
                o.update(e="Tel", tk=tk, phase=ev.get("phase", ""), status=ev.get("status", ""), et=ev.get("errType", ""),
                         inv=reqk.get(ev.get("reqid", ""), 0))
            else:
                continue
        elif kind == "StateSeen":
            o.update(e="Obs", who=who_of(ev.get("who", "")), name=ev.get("state", ""))
        elif kind in ("HookEnter", "HookLeave"):
            pt = ev.get("point", "") or ""
            if pt.startswith("drv.body:") and kind == "HookLeave" and pt[len("drv.body:"):] in slow_cid:
                o.update(e="BodyDone", cid=slow_cid[pt[len("drv.body:"):]])     # the rest of a slowly sent body goes out now
                out.append(o)
                continue
            if pt.startswith("drv."):
                continue        # a pause point of the driver (e.g. a caller's stalled connection), not of the emulator
            o.update(e="Hook", ph="enter" if kind == "HookEnter" else "leave", point=ev.get("point", ""))
        elif kind == "Missing":
            # the driver expected an event of the emulator (e.g. the launch of a process) that did not come in time
            o.update(e="Missing", name=ev.get("what", ""))
        elif kind == "NoAnswer":
            # the most recent call of that party and kind that has not returned
            who = who_of(ev.get("who", ""))
            cid = 0
            for c_ in reversed(open_calls):
                if c_[1] == who and c_[2] == ev.get("api"):
                    cid = c_[0]
                    break
            if not cid:
                continue
            o.update(e="NoAnswer", cid=cid, who=who)
        elif kind == "NoOutcome":
            # the driver gave up waiting for an invocation's outcome (bound: timeout + reset allowance + grace + slack):
            # no action of the specification corresponds to it
            o.update(e="NoOutcome")
        elif kind in ("ResetCall", "ResetRet", "ShutdownCall", "ShutdownRet", "RestoreCall", "RestoreRet"):
            o.update(e=kind, reason=ev.get("reason", "") or ev.get("label", ""), err=ev.get("err", ""), timeoutMs=ev.get("timeoutMs", 0))
        else:
            continue
        if bound is not None and o["e"] in bound:
            continue        # `bound` lists the event kinds this check does NOT bind (e.g. {"Tel"})
        out.append(o)
    if pending_lines is not None and not (bound is not None and "Tel" in bound):
        out.append(pending_lines)
    if bound is not None and "Tel" in bound:
        out = [o for o in out if o["e"] != "Tel"]
    for o in out:
        if o["e"] == "Tel" and o["tk"] == "ExtensionInit":
            o["lines"].sort(key=lambda x: x["name"])
    return out


def write_ndjson(path, events):
    with open(path, "w") as f:
        for e in events:
            f.write(json.dumps(e, separators=(",", ":")) + "\n")


def load_ndjson(path):
    with open(path) as f:
        return [json.loads(l) for l in f if l.strip()]
