"""TLC runner: runs tlc in a scratch copy of /verif/spec, parses its output."""
import os
import re
import shutil
import subprocess
import tempfile
import time

VERIF = os.path.dirname(os.path.dirname(os.path.abspath(__file__)))
SPEC = os.environ.get("VERIF_SPEC", os.path.join(VERIF, "spec"))     # (development: a scratch copy of the specifications)
JAR = "/opt/veriftools/tla/tla2tools.jar:/opt/veriftools/tla/CommunityModules-deps.jar"


class TLCResult:
    def __init__(self):
        self.rc = None
        self.out = ""
        self.generated = 0
        self.distinct = 0
        self.depth = 0
        self.violation = None      # name of violated invariant / property / "deadlock"
        self.error = None          # tool-level error text (parse error, eval error, timeout)
        self.coverage = {}         # action name -> (distinct, total)
        self.scratch = None
        self.wall_s = 0.0
        self.trace = []            # counterexample states (raw text)
        self.postcondition_failed = False

    @property
    def ok(self):
        return self.rc == 0 and self.error is None and self.violation is None

    def summary(self):
        return {"rc": self.rc, "generated": self.generated, "distinct": self.distinct,
                "depth": self.depth, "violation": self.violation, "error": self.error,
                "wall_s": round(self.wall_s, 2)}


def make_scratch(prefix="verif-tlc-"):
    return tempfile.mkdtemp(prefix=prefix)


def run_tlc(module, cfg, workers=None, timeout=600, extra_args=(), spec_dir=SPEC,
            extra_files=(), scratch=None, keep=False, dfs=False, heap=None, coverage=False,
            java_props=()):
    """Run TLC on spec_dir/module.tla with config cfg (file name in spec_dir or absolute).

    extra_files: iterable of (src_path, name_in_scratch) copied next to the spec.
    dfs: use the depth-first state queue (trace validation).
    """
    res = TLCResult()
    own = scratch is None
    if own:
        scratch = make_scratch()
    res.scratch = scratch
    for f in os.listdir(spec_dir):
        if (f.endswith(".tla") or f.endswith(".cfg")) and os.path.abspath(spec_dir) != os.path.abspath(scratch):
            shutil.copy(os.path.join(spec_dir, f), os.path.join(scratch, f))
    if os.path.isabs(cfg):
        if os.path.dirname(cfg) != scratch:
            shutil.copy(cfg, os.path.join(scratch, os.path.basename(cfg)))
        cfg = os.path.basename(cfg)
    for src, name in extra_files:
        shutil.copy(src, os.path.join(scratch, name))
    if workers is None:
        workers = os.cpu_count() or 4
    cmd = ["java", "-XX:+UseParallelGC"]
    if heap:
        cmd.append("-Xmx%s" % heap)
    cmd.append("-Xss64m")
    if dfs:
        cmd.append("-Dtlc2.tool.queue.IStateQueue=StateDeque")
    for p in java_props:
        cmd.append(p)
    cmd += ["-cp", JAR, "tlc2.TLC", "-workers", str(workers),
            "-metadir", os.path.join(scratch, "meta"), "-config", cfg]
    if coverage:
        cmd += ["-coverage", "1"]
    cmd += list(extra_args)
    cmd.append(module + ".tla")
    t0 = time.time()
    try:
        p = subprocess.run(cmd, cwd=scratch, stdout=subprocess.PIPE, stderr=subprocess.STDOUT,
                           timeout=timeout, text=True, errors="replace")
        res.rc = p.returncode
        res.out = p.stdout
    except subprocess.TimeoutExpired as e:
        res.rc = -1
        res.out = (e.stdout or b"").decode("utf-8", "replace") if isinstance(e.stdout, bytes) else (e.stdout or "")
        res.error = "timeout after %ss" % timeout
        subprocess.run(["pkill", "-f", "metadir %s" % os.path.join(scratch, "meta")],
                       stdout=subprocess.DEVNULL, stderr=subprocess.DEVNULL)
    res.wall_s = time.time() - t0
    _parse(res)
    if own and not keep:
        shutil.rmtree(scratch, ignore_errors=True)
        res.scratch = None
    return res


_RE_STATES = re.compile(r"(\d+) states generated, (\d+) distinct states found")
_RE_DEPTH = re.compile(r"depth of the complete state graph search is (\d+)")
_RE_INV = re.compile(r"Invariant (\S+) is violated")
_RE_PROP = re.compile(r"(?:Temporal properties were violated|Action property (\S+) is violated|Action property line .* is violated)")
_RE_COV = re.compile(r"^<(\w+) line \d+, col \d+ to line \d+, col \d+ of module (\w+)>: (\d+):(\d+)", re.M)


def _parse(res):
    out = res.out
    for m in _RE_STATES.finditer(out):
        res.generated = int(m.group(1))
        res.distinct = int(m.group(2))
    m = _RE_DEPTH.search(out)
    if m:
        res.depth = int(m.group(1))
    m = _RE_INV.search(out)
    if m:
        res.violation = m.group(1)
    elif "Deadlock reached" in out:
        res.violation = "deadlock"
    elif "Temporal properties were violated" in out:
        res.violation = "temporal"
    else:
        m = re.search(r"Action property (\S+) is violated", out)
        if m:
            res.violation = m.group(1)
        elif re.search(r"Action property line", out):
            res.violation = "action-property"
    if "Error: Postcondition" in out or "postcondition" in out.lower() and "violated" in out.lower():
        res.postcondition_failed = True
    for m in _RE_COV.finditer(out):
        res.coverage[m.group(1)] = (int(m.group(3)), int(m.group(4)))
    if res.error is None and res.rc not in (0, 10, 11, 12, 13):
        # 1xx/7x-15x: tool errors (parse, semantic, evaluation)
        if res.violation is None and not res.postcondition_failed:
            lines = [l for l in out.splitlines() if l.startswith("Error") or "rror:" in l]
            res.error = "tlc rc=%s %s" % (res.rc, " | ".join(lines[:4]))
    # counterexample states
    if res.violation:
        res.trace = re.findall(r"^State \d+: .*?(?=^State \d+:|\Z|^\d+ states generated)", out, re.M | re.S)


def sany(module, spec_dir=SPEC, timeout=120):
    scratch = make_scratch("verif-sany-")
    try:
        for f in os.listdir(spec_dir):
            if f.endswith(".tla"):
                shutil.copy(os.path.join(spec_dir, f), os.path.join(scratch, f))
        # the proof modules extend TLAPS, which comes with the proof system, not with the tools jar
        lib = "/opt/veriftools/tlapm/lib/tlapm/stdlib"
        p = subprocess.run(["java"] + (["-DTLA-Library=" + lib] if os.path.isdir(lib) else []) + ["-cp", JAR, "tla2sany.SANY", module + ".tla"], cwd=scratch,
                           stdout=subprocess.PIPE, stderr=subprocess.STDOUT, timeout=timeout, text=True)
        ok = p.returncode == 0 and "Semantic errors" not in p.stdout and "***Parse Error***" not in p.stdout \
            and "Fatal errors" not in p.stdout
        return ok, p.stdout
    finally:
        shutil.rmtree(scratch, ignore_errors=True)


def tlapm(module, spec_dir=None, timeout=600, threads=16):
    """Run the TLA+ proof system on spec_dir/module.tla in a scratch copy; returns (all_proved, obligations, tail of output)."""
    spec_dir = spec_dir or SPEC
    scratch = make_scratch("verif-tlaps-")
    try:
        for f in os.listdir(spec_dir):
            if f.endswith(".tla"):
                shutil.copy(os.path.join(spec_dir, f), os.path.join(scratch, f))
        try:
            p = subprocess.run(["tlapm", "--threads", str(threads), module + ".tla"], cwd=scratch, stdout=subprocess.PIPE,
                               stderr=subprocess.STDOUT, text=True, timeout=timeout)
        except subprocess.TimeoutExpired:
            return False, 0, "timeout after %ss" % timeout
        m = re.search(r"All (\d+) obligations? proved", p.stdout)
        return bool(m), int(m.group(1)) if m else 0, p.stdout[-1500:]
    finally:
        shutil.rmtree(scratch, ignore_errors=True)
