"""Projection of a recorded front-end run to the events of spec/Trace_FrontEnd.tla, and its validation."""
import re

import tracecheck

ARN = "arn:aws:lambda:us-east-1:012345678912:function:test_function"
BLANK = {"e": "", "j": 0, "badctx": False, "out": "", "body": "empty", "status": 0, "dataok": True, "sid": "", "src": 0, "lines": []}


def project(raw_events, scenario, bound=None):
    out = [dict(BLANK, e="Begin", sid=scenario.get("id", ""))]
    secs = max(1, int(scenario.get("opt", {}).get("timeoutMs", 1000)) // 1000)
    timeout_len = len("Task timed out after %d.00 seconds" % secs)
    fecall = {}
    invret = {}
    for ev in raw_events:
        k = ev.get("ev")
        o = dict(BLANK, src=ev.get("seq", 0))
        if k == "FECall":
            fecall[ev["j"]] = ev
            o.update(e="FECall", j=ev["j"], badctx=bool(ev.get("badctx")))
        elif k == "InitCall":
            o.update(e="InitCall")
        elif k == "InitRet":
            o.update(e="InitRet")
        elif k == "InvokeCall" and ev.get("fe"):
            fc = fecall.get(ev["fe"], {})
            ok = (ev.get("sha") == fc.get("sha") and ev.get("ctx", "") == fc.get("ctx", "")
                  and ev.get("trace", "") == fc.get("trace", "") and ev.get("arn") == ARN)
            o.update(e="InvokeCall", j=ev["fe"], dataok=ok)
        elif k == "InvokeRet" and ev.get("fe"):
            invret[ev["fe"]] = ev
            o.update(e="InvokeRet", j=ev["fe"], out=ev.get("err", ""), body=("b%d" % ev["fe"]) if ev.get("size", 0) > 0 else "empty")
        elif k == "FERet":
            ir = invret.get(ev["j"], {})
            if ev.get("size", 0) == 0:
                body = "empty"
            elif ir and ev.get("sha") == ir.get("sha"):
                body = "b%d" % ev["j"]
            elif ev.get("body") == "timeout" and ev.get("size") == timeout_len:     # the exact text, nothing appended
                body = "timeout-text"
            else:
                body = "other"
            o.update(e="FERet", j=ev["j"], status=ev.get("status", 0), body=body, lines=list(ev.get("lines") or []))
        else:
            continue
        out.append(o)
    return out


def validate(items, timeout=120):
    """items: list of (scenario, raw events)"""
    return tracecheck.validate(items, module="Trace_FrontEnd", cfg="Trace_FrontEnd.cfg", timeout=timeout,
                               _projected=[(sc, project(evs, sc)) for sc, evs in items])
