#!/usr/bin/env python3
"""Developer aid: find a specification behaviour over a stored trace that reaches a state satisfying a
TLA+ predicate over st / l.   usage: tracedbg.py <replay dir> '<predicate>' [key ...]"""
import json, os, re, shutil, sys
sys.path.insert(0, os.path.join(os.path.dirname(os.path.abspath(__file__)), "..", "lib"))
sys.path.insert(0, os.path.dirname(os.path.abspath(__file__)))
import traceprep, tlc

d, pred = sys.argv[1], sys.argv[2]
keys = sys.argv[3:] or ['rs |->', 'pcS |->', 'hm |->', 'pcV |->', 'pcI |->', 'rdone', 'procs |->', 'pcW', 'iv |->']
sc = json.load(open(d + '/scenario.json'))
evs = traceprep.load_ndjson(d + '/trace.ndjson')
proj = traceprep.project(evs, sc, bound=None if os.environ.get('TEL') else {'Tel'})
scratch = tlc.make_scratch('dbg-')
traceprep.write_ndjson(scratch + '/trace.ndjson', proj)
for f in os.listdir(tlc.SPEC):
    if f.endswith('.tla'):
        shutil.copy(os.path.join(tlc.SPEC, f), scratch)
src = open(os.path.join(tlc.SPEC, 'Trace_Rapid.cfg')).read().replace('POSTCONDITION TraceAccepted', 'INVARIANT Dbg')
open(scratch + '/dbg.cfg', 'w').write(src)
spec = open(scratch + '/Trace_Rapid.tla').read().replace('NotReached == l < HWM', 'NotReached == l < HWM\nDbg == ~(%s)' % pred)
open(scratch + '/Trace_Rapid.tla', 'w').write(spec)
r = tlc.run_tlc('Trace_Rapid', scratch + '/dbg.cfg', workers=1, timeout=180, scratch=scratch, dfs=True, spec_dir=scratch)
print("violation:", r.violation, "error:", r.error, "hw:", re.findall(r'"hw", (\d+)', r.out)[-1:])
import cex
if os.environ.get('DIFF'):
    for n, act, dd in cex.steps(r):
        print("%s %s  %s" % (n, act, "  ".join("%s=%s" % (k, v) for k, v in sorted(dd.items()) if not k.startswith('st.tel')))[:int(os.environ.get('W', '300'))])
states = re.split(r'\nState \d+: ', r.out)
print("behaviour length", len(states) - 1)
last = states[-1]
print(last[:120])
for key in keys:
    j = last.find(key)
    print(re.sub(r'\s+', ' ', last[j:j + 700])[:600])
    print('--')
shutil.rmtree(scratch, ignore_errors=True)
