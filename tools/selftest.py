#!/usr/bin/env python3
"""Demonstrations of the binding (DESIGN.md section 10).  Not a registered check.
 1. the as-found model configurations violate the invariant that made TLC find the defect;
 2. reverting a repair in /repo (selftest/mutants/*.diff, applied and reverted again) makes the named check fail.
usage: tools/selftest.py [--mc-only]"""
import json, os, subprocess, sys
sys.path.insert(0, os.path.join(os.path.dirname(os.path.abspath(__file__)), "..", "lib"))
import mcrapid

MUT = {"revert-F-C10-6.diff": "C10", "revert-F-C14-1.diff": "C14", "revert-F-C10-5.diff": "C10", "revert-F-C19-3.diff": "C19", "mut-fe-report-on-timeout.diff": "C05", "revert-F-C19-2.diff": "C19", "revert-F-C08-2.diff": "C08", "revert-F-C03-1.diff": "C03", "revert-F-C10-2.diff": "C10", "revert-F-C10-4.diff": "C10", "revert-F-C05-2.diff": "C05", "revert-F-C10-3.diff": "C10"}
ASFOUND = [("race", '{"watch-close-first"}', "ResetIsFresh"), ("faults", '{"clear-outside-mutex"}', "RuntimeAfterRegistrations"),
           ("two", '{"reset-wrapper-releases"}', "OkHasBody"), ("twox", '{"double-reset"}', "OkHasBody")]


def main():
    ok = True
    for name, asf, inv in ASFOUND:
        # (the double reset is itself part of the cut-off: demonstrate it under the ghost cut-off alone)
        r = mcrapid.run(name, [inv], constraint="NoGhostInvoke" if "double-reset" in asf else "KnownFindingsCutOff", asfound=asf, timeout=1800)
        good = r.violation == inv
        print("MC_Rapid/%s AsFound=%s: %s violated=%s (%d states in counterexample) %s"
              % (name, asf, inv, r.violation, len(r.trace), "OK" if good else "UNEXPECTED"))
        ok &= good
    for inv in ["RuntimeAfterRegistrations", "NoEventBeforeAllNext", "DoneOnlyAfterAll", "NoGhostInvoke", "StreamOwnerIsReserver",
                "OkHasBody", "ResetIsFresh"]:
        r = mcrapid.run("faults", ["Unreach_" + inv], constraint="NoGhostInvoke", timeout=600)
        good = r.violation == "Unreach_" + inv
        print("vacuity: antecedent of %s reachable in MC_Rapid/faults: %s" % (inv, "yes (depth %d)" % len(r.trace) if good else "NO"))
        ok &= good
    r = mcrapid.run("internal", ["Unreach_InternalBusy"], constraint="NoGhostInvoke", timeout=600)
    good = r.violation == "Unreach_InternalBusy"
    print("vacuity: an internal extension busy with an event is reachable in MC_Rapid/internal: %s" % ("yes (depth %d)" % len(r.trace) if good else "NO"))
    ok &= good
    # the TLAPS proof of the latch invariants must break exactly at SetCount for the latch as found (no broadcast)
    import tlc, shutil, tempfile
    d = tempfile.mkdtemp(prefix="verif-proof-")
    for f in ("Gate.tla", "GateOps.tla"):
        shutil.copy(os.path.join(tlc.SPEC, f), d)
    src = open(os.path.join(tlc.SPEC, "GateProof.tla")).read().replace("SetCountBroadcasts = TRUE", "SetCountBroadcasts = FALSE")
    open(os.path.join(d, "GateProof.tla"), "w").write(src)
    okp, nobl, out = tlc.tlapm("GateProof", spec_dir=d, timeout=600)
    failed = [l for l in out.splitlines() if "obligations failed" in l]
    good = (not okp) and failed and failed[0].strip().startswith("[ERROR]: 1/")
    print("TLAPS GateProof with the latch as found (SetCount does not broadcast): %s %s" % (failed[:1], "OK (one obligation, SetCount, unprovable)" if good else "UNEXPECTED"))
    ok &= bool(good)
    shutil.rmtree(d, ignore_errors=True)
    d = tempfile.mkdtemp(prefix="verif-proof-")
    shutil.copy(os.path.join(tlc.SPEC, "FrontEnd.tla"), d)
    src = open(os.path.join(tlc.SPEC, "FrontEndProof.tla")).read().replace("FEAsFound = FALSE", "FEAsFound = TRUE")
    open(os.path.join(d, "FrontEndProof.tla"), "w").write(src)
    okp, nobl, out = tlc.tlapm("FrontEndProof", spec_dir=d, timeout=600)
    print("TLAPS FrontEndProof with the front end as found (no mutex around initDone): %s" % ("UNEXPECTED: proved" if okp else "OK (not provable)"))
    ok &= not okp
    shutil.rmtree(d, ignore_errors=True)
    if "--mc-only" in sys.argv:
        return 0 if ok else 1
    # mutants: each in its own scratch worktree of /repo's HEAD (removed afterwards); /repo and /verif/evidence are not touched
    d = os.path.join(os.path.dirname(os.path.abspath(__file__)), "..", "selftest", "mutants")
    from concurrent.futures import ThreadPoolExecutor

    def one(item):
        f, chk = item
        wt = os.path.join("/tmp/st", f.replace(".diff", ""))
        subprocess.run(["git", "-C", "/repo", "worktree", "remove", "--force", wt], capture_output=True)
        shutil.rmtree(wt, ignore_errors=True)
        os.makedirs("/tmp/st", exist_ok=True)
        assert subprocess.run(["git", "-C", "/repo", "worktree", "add", "-q", "--detach", wt, "HEAD"]).returncode == 0
        try:
            assert subprocess.run(["git", "-C", wt, "apply", os.path.join(d, f)]).returncode == 0, "mutant does not apply: " + f
            env = dict(os.environ, VERIF_REPO=wt, VERIF_BUILD=wt + "-build", VERIF_EVIDENCE=wt + "-ev")
            p = subprocess.run([os.path.join(os.path.dirname(os.path.abspath(__file__)), "..", "check"), chk], capture_output=True, text=True, env=env)
            lines = [l for l in p.stdout.splitlines() if l.startswith("violation detail")]
            return f, chk, p.returncode, (lines or [""])[0][:300]
        finally:
            subprocess.run(["git", "-C", "/repo", "worktree", "remove", "--force", wt], capture_output=True)
            shutil.rmtree(wt + "-build", ignore_errors=True)
            shutil.rmtree(wt + "-ev", ignore_errors=True)

    with ThreadPoolExecutor(4) as ex:
        for f, chk, rc, first in ex.map(one, list(MUT.items())):
            good = rc == 1
            print("%s -> check %s exit=%d %s\n    %s" % (f, chk, rc, "OK (detected)" if good else "NOT DETECTED", first))
            ok &= good
    subprocess.run(["git", "-C", "/repo", "worktree", "prune"], capture_output=True)
    return 0 if ok else 1


if __name__ == "__main__":
    sys.exit(main())
