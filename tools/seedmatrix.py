#!/usr/bin/env python3
"""Run the registered checks against every seeded change under /verif/seeded and record the outcome in
seeded/<id>/meta.json ("detected_by", per-check exit code and first violation line).  Each seed gets its own
scratch worktree of /repo (HEAD) under /tmp/sm with the patch applied; the checks are pointed at it through
VERIF_REPO / VERIF_BUILD / VERIF_EVIDENCE, so /repo itself and /verif/evidence are not touched and several
seeds run at the same time.  Worktrees and build output are removed afterwards.
usage: tools/seedmatrix.py [-j N] [id ...]"""
import json, os, shutil, subprocess, sys, time
from concurrent.futures import ThreadPoolExecutor

ROOT = "/verif/seeded"
EXTRA = {"C14-m": ["C01"], "C13-m": ["C08"], "C11-m": ["C04"], "C15-i": ["C11", "C06"], "C12-h": ["C18"], "C15-f": ["C08"], "C08-f": ["C15"], "C01-a": ["C12"], "C01-b": ["C03"], "C06-b": ["C08"], "C12-a": ["C18"], "C05-a": ["C08"], "C07-a": ["C06"], "C02-a": ["C01"]}
SM = "/tmp/sm"


def one(sid, head):
    d = os.path.join(ROOT, sid)
    patch = os.path.join(d, "patch.diff")
    mp = os.path.join(d, "meta.json")
    meta = json.load(open(mp)) if os.path.exists(mp) else {"id": sid, "property": sid.split("-")[0]}
    prop = sid.split("-")[0]
    checks = [prop] + EXTRA.get(sid, [])
    res = {"repo_head": head, "when": time.strftime("%Y-%m-%dT%H:%M:%SZ", time.gmtime()), "checks": {}}
    wt = os.path.join(SM, sid)
    subprocess.run(["git", "-C", "/repo", "worktree", "remove", "--force", wt], capture_output=True)
    shutil.rmtree(wt, ignore_errors=True)
    assert subprocess.run(["git", "-C", "/repo", "worktree", "add", "-q", "--detach", wt, "HEAD"]).returncode == 0
    try:
        rc = subprocess.run(["git", "-C", wt, "apply", patch], capture_output=True, text=True)
        res["applies"] = rc.returncode == 0
        if rc.returncode != 0:
            res["note"] = rc.stderr[-300:]
        else:
            env = dict(os.environ, VERIF_REPO=wt, VERIF_BUILD=wt + "-build", VERIF_EVIDENCE=wt + "-ev")
            for c in checks:
                p = subprocess.run(["/verif/check", c], capture_output=True, text=True, env=env)
                lines = [l for l in p.stdout.splitlines() if l.startswith(("violation detail", "INCONCLUSIVE"))]
                res["checks"][c] = {"exit": p.returncode, "first": (lines or [""])[0][:400],
                                    "violations": sum(l.startswith("VIOLATION") for l in p.stdout.splitlines())}
    finally:
        subprocess.run(["git", "-C", "/repo", "worktree", "remove", "--force", wt], capture_output=True)
        shutil.rmtree(wt + "-build", ignore_errors=True)
        shutil.rmtree(wt + "-ev", ignore_errors=True)
    res["detected_by"] = sorted(c for c, r in res["checks"].items() if r["exit"] == 1)
    meta["last_matrix_run"] = res
    meta["caught_by"] = res["detected_by"]
    json.dump(meta, open(mp, "w"), indent=1)
    print(sid, "applies" if res["applies"] else "DOES NOT APPLY", res["detected_by"], {c: r["exit"] for c, r in res["checks"].items()}, flush=True)
    return sid, res


def main():
    args = sys.argv[1:]
    j = 3
    if args[:1] == ["-j"]:
        j = int(args[1]); args = args[2:]
    ids = args or sorted(os.listdir(ROOT))
    ids = [i for i in ids if os.path.exists(os.path.join(ROOT, i, "patch.diff"))]
    os.makedirs(SM, exist_ok=True)
    head = subprocess.run(["git", "-C", "/repo", "rev-parse", "--short", "HEAD"], capture_output=True, text=True).stdout.strip()
    with ThreadPoolExecutor(max_workers=j) as ex:
        list(ex.map(lambda s: one(s, head), ids))
    subprocess.run(["git", "-C", "/repo", "worktree", "prune"])
    return 0


if __name__ == "__main__":
    sys.exit(main())
