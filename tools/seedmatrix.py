#!/usr/bin/env python3
"""Run the registered checks against every seeded change under /verif/seeded (one at a time: apply the
patch to /repo, run the checks of its property (+ extra ones given in CHECKS), revert) and record the
outcome in seeded/<id>/meta.json ("detected_by", per-check exit code and first violation line).
usage: tools/seedmatrix.py [id ...]"""
import json, os, subprocess, sys, time

ROOT = "/verif/seeded"
EXTRA = {"C01-a": ["C12"], "C01-b": ["C03"], "C06-b": ["C08"], "C12-a": ["C18"], "C05-a": ["C08"], "C07-a": ["C06"], "C02-a": ["C01"]}


def clean():
    subprocess.run(["git", "-C", "/repo", "checkout", "--", "."])
    subprocess.run(["git", "-C", "/repo", "clean", "-fdq"])


def main():
    ids = sys.argv[1:] or sorted(os.listdir(ROOT))
    st = subprocess.run(["git", "-C", "/repo", "status", "--short"], capture_output=True, text=True).stdout.strip()
    if st:
        print("/repo not clean"); return 2
    head = subprocess.run(["git", "-C", "/repo", "rev-parse", "--short", "HEAD"], capture_output=True, text=True).stdout.strip()
    for sid in ids:
        d = os.path.join(ROOT, sid)
        patch = os.path.join(d, "patch.diff")
        if not os.path.exists(patch):
            continue
        mp = os.path.join(d, "meta.json")
        meta = json.load(open(mp)) if os.path.exists(mp) else {"id": sid, "property": sid.split("-")[0]}
        prop = sid.split("-")[0]
        checks = [prop] + EXTRA.get(sid, [])
        res = {"repo_head": head, "when": time.strftime("%Y-%m-%dT%H:%M:%SZ", time.gmtime()), "checks": {}}
        rc = subprocess.run(["git", "-C", "/repo", "apply", patch], capture_output=True, text=True)
        if rc.returncode != 0:
            res["applies"] = False
            res["note"] = rc.stderr[-300:]
        else:
            res["applies"] = True
            try:
                for c in checks:
                    p = subprocess.run(["/verif/check", c], capture_output=True, text=True)
                    lines = [l for l in p.stdout.splitlines() if l.startswith(("violation detail", "INCONCLUSIVE"))]
                    res["checks"][c] = {"exit": p.returncode, "first": (lines or [""])[0][:400], "violations": sum(l.startswith("VIOLATION") for l in p.stdout.splitlines())}
            finally:
                clean()
        res["detected_by"] = sorted(c for c, r in res["checks"].items() if r["exit"] == 1)
        meta["last_matrix_run"] = res
        meta["caught_by"] = res["detected_by"]
        json.dump(meta, open(mp, "w"), indent=1)
        print(sid, "applies" if res["applies"] else "DOES NOT APPLY", res["detected_by"], {c: r["exit"] for c, r in res["checks"].items()}, flush=True)
    return 0


if __name__ == "__main__":
    sys.exit(main())
