#!/usr/bin/env python3
"""Regenerates /verif/MANIFEST.json from the table below (single source for the manifest)."""
import json
import os
import subprocess

V = os.path.dirname(os.path.dirname(os.path.abspath(__file__)))

SCEN_NOTE = ("Trusted: TLC; the harness (fake process supervisor honouring the supervisor contract, scripted HTTP actors, "
             "event recorder with one sequence counter); the projection lib/traceprep.py. Schedules of the real code are "
             "those the scenario scripts force (arrival orders, hold-backs); all other interleavings are covered on the "
             "specification only.")

CHECKS = {
    "C11": dict(
        text="TLC checks the latch design (spec/Gate.tla: 3 waiters with the wake/re-test window, counts 0..3 and 65535, cancel with/without error, re-arm, clear; all interleavings up to a bounded number of operations) against NoLostWakeup, ReturnIsJustified, CancelSticky, RefusalIsNoOp; the binding to the code is exhaustive at quiescent granularity: every edge of the quiescent state graph (spec/GateQ.tla) is executed on a real core.NewGate with real waiter goroutines and the return value, each waiter's parked/returned status and result are compared.",
        note="Trusted: TLC, runtime.Stack wait-state reporting, the GateQ quotient (re-tests of woken waiters commute). The non-quiescent wake/re-test window is covered on the specification only.",
        technique="TLA+ spec + TLC; state-graph edge cover replayed on the real latch (spec -> code conformance)",
        engine="E1-tlc + E2-walk", ref="DESIGN.md 6 C11"),
    "C03": dict(
        text="The init barrier is part of the composite specification spec/Rapid.tla (init program counter, four init latches, registration service, agent automata). Scenario scripts drive the real stack through seeded arrival orders of register/next calls of 0..3 external and 0..2 internal extensions, the runtime and the first invocation, with directory entries, dot-named extension files, registrations arriving while the launch loop is still running, a held-back party and a late registration, and the same barrier in the second generation (inline init of the invocation after a timeout / runtime exit, one party's poll held back); TLC decides for every recorded trace whether it is a behaviour of the specification (trace validation with internal steps, strict-timer rule).",
        note=SCEN_NOTE, technique="TLA+ spec + TLC trace validation of recorded full-stack traces (code -> spec conformance)",
        engine="E4-scenarios + E3-trace", ref="DESIGN.md 6 C03"),
    "C04": dict(
        text="The invoke barrier and the INVOKE fan-out are actions of spec/Rapid.tla (Dispatch, AwaitResponse, AwaitRuntimeBack, AwaitAgentsBack over the three invoke latches). Scenarios cover subscription sets over 0..3 external and 0..1 internal extensions, 2-3 consecutive invocations, permuted return orders, a held-back party and seven forms of the caller's trace header (which must reach the extensions verbatim); every recorded trace is validated by TLC against the specification, so an event at a non-subscriber, a missing event, a wrong request id or completion before the last party polled is an unexplainable trace.",
        note=SCEN_NOTE, technique="TLA+ spec + TLC trace validation of recorded full-stack traces (code -> spec conformance)",
        engine="E4-scenarios + E3-trace", ref="DESIGN.md 6 C04"),
}

CHECKS.update({
    "C10": dict(
        text="The reservation (invokeCtx, reply stream, reservation context, completion channel) and the goroutines of Server.Invoke (main/timer, release, FastInvoke, inner) are modelled per invocation in spec/Rapid.tla. Scenarios place a second and a third caller at every phase of the first invocation (during init, after dispatch, after the response while an extension finishes, during the timeout reset, after completion) (also with an internal extension as the only INVOKE subscriber, still busy after the runtime's answer) and continue with a sequential invocation; TLC validates each recorded trace: the extra caller must be refused with the reservation error and nothing else may change. A crash of the emulator process is reported directly.",
        note=SCEN_NOTE, technique="TLA+ spec + TLC trace validation of recorded full-stack traces; process crash detection",
        engine="E4-scenarios + E3-trace", ref="DESIGN.md 6 C10"),
    "C12": dict(
        text="The runtime automaton (ten states), the ManagedThread suspend/release flag, the request-id middleware, the reply-stream checks and the rendering states are the API handler section of spec/Rapid.tla. Seeded random call sequences over {next, response/error with current, stale, unknown and case-variant ids, init/error, and requests answered from the route table of the specification (unknown routes, wrong methods, snapshot routes outside snapshot mode, the Logs/Telemetry stub routes)} interleaved with invocations (with and without an extension that keeps invocations open) are executed against the real Runtime API; every answer (status, error type, invocation delivered, payload class) must be the one the specification computes in the state reached (TLC trace validation). A snapshot-mode family covers the restore states of the automaton (restore poll, hook, an invocation arriving while the hook is still running).",
        note=SCEN_NOTE, technique="TLA+ spec + TLC trace validation of recorded full-stack traces (code -> spec conformance)",
        engine="E4-scenarios + E3-trace", ref="DESIGN.md 6 C12"),
    "C13": dict(
        text="Agent automata (external/internal), registration service (name uniqueness across kinds, limit of ten, registration window), identifier middleware, event validation and the echoed registration data are part of spec/Rapid.tla. Seeded random call sequences per extension over {register(events,name,features,body), next, init/error, exit/error} with known/missing/invalid/unknown identifiers for 1..3 external and internal extensions, plus directories and registration series around the limit, are executed on the real Extensions API and validated by TLC against the specification.",
        note=SCEN_NOTE, technique="TLA+ spec + TLC trace validation of recorded full-stack traces (code -> spec conformance)",
        engine="E4-scenarios + E3-trace", ref="DESIGN.md 6 C13"),
})

CHECKS.update({
    "C01": dict(
        text="Payload, request id, reply stream and outcome of every invocation are state of spec/Rapid.tla (per-invocation records, rendering service, SendBody). Scenarios run all histories of length <= 2 over {ok, error, oversize, timeout, runtime exit} plus random longer ones with empty / 1-byte / binary / large payloads and client contexts; the harness projection maps received bytes to sha-256 classes and checks ARN, deadline (= arrival + timeout) and client context; TLC validates each trace: the runtime must receive the payload of the invocation in flight, the caller the body posted for its request id, and exactly one InvokeRet per InvokeCall within the time bound. Through the front end: a caller whose connection stalls while the next caller is served must receive its own bytes; the START / END / REPORT lines printed per request are part of the front-end trace.",
        note=SCEN_NOTE + " Byte equality is decided by the projection, not by TLA+.", technique="TLA+ spec + TLC trace validation of recorded full-stack traces; byte-class projection",
        engine="E4-scenarios + E3-trace", ref="DESIGN.md 6 C01"),
    "C06": dict(
        text="Events watcher (first fatal error store-if-absent, exit channels, CancelFlows once), init/invoke failure handling, cached init error, default error body and the reset that follows are modelled in spec/Rapid.tla. Scenarios enumerate fault points of the runtime {during init, after init/error, after the event, after the response, idle} and of an extension {before register, after register, after its event, after init-error / exit-error report, idle, launch failure} x exit kind {0, non-zero, signal} x 0..2 extensions, each followed by a recovery invocation on new processes; TLC validates failure status, body class and recovery of every trace.",
        note=SCEN_NOTE, technique="TLA+ spec + TLC trace validation of recorded full-stack traces (fault-point enumeration)",
        engine="E4-scenarios + E3-trace", ref="DESIGN.md 6 C06"),
    "C14": dict(
        text="SendBody in spec/Rapid.tla distinguishes bodies above the limit (413 to the runtime, Function.ResponseSizeTooLarge to the caller, runtime state ResponseSent, no reset) and events above the limit (delivered cut). Scenarios place response sizes {0,1,L/2,L-1,L,L+1,L+4096} and request sizes {L-1,L,L+1,L+4096} (real constant L = 6 MiB + 100) in every position of a sequence, also for responses that declare the streaming mode; the projection classifies bytes (equal / cut at L / error JSON naming both sizes); TLC validates each trace, in which a Kill/Exec between invocations would be unexplainable.",
        note=SCEN_NOTE, technique="TLA+ spec + TLC trace validation of recorded full-stack traces; size sweep around the limit",
        engine="E4-scenarios + E3-trace", ref="DESIGN.md 6 C14"),
})

CHECKS.update({
    "C08": dict(
        text="Everything that survives a generation is a field of the state record of spec/Rapid.tla (latch count/arrivals/cancellation, cancel-once flag, registration maps and window, first fatal error, cached init error, completion channel, reservation, exit channels). Scenarios run a prefix {healthy+timeout, runtime init error, crash, timeout, extension crash, extension init error, an extension that ignores SHUTDOWN, an invocation that times out while the init it overlaps never completes, ...} ending in a reset and a suffix {healthy, crash, early internal extension, timeout} on the same instance. The result rapid hands to the server for every invocation (kind, runtime identity string) is recorded behind the server and bound as well. TLC validates (a) the whole trace against the specification and (b) the suffix alone, renumbered, against the specification started from a fresh instance whose one-time init is consumed - the state formulation of 'behaves exactly like a freshly started one'.",
        note=SCEN_NOTE + " Late exit notifications of old processes are ordered by the fake supervisor's goroutines, not forced.", technique="TLA+ spec + TLC trace validation; suffix-from-fresh acceptance (relational property as state equality)",
        engine="E4-scenarios + E3-trace", ref="DESIGN.md 6 C08"),
})

CHECKS.update({
    "C05": dict(
        text="Timer goroutine, Reset('Timeout'), HandleReset (cancel flows, handler mutex, shutdown, generation++, Clear) and the release/FastInvoke goroutines that outlive the answer are modelled in spec/Rapid.tla. Scenarios stall a party in every phase {extension before register / before next, runtime before first next / before response / before returning to next, extension after the event} with 0..2 extensions, followed by a recovery invocation; a sweep posts the response at offsets around the expiry. TLC validates the stamped traces: the timer step is allowed only after the function timeout has elapsed and - strict timer rule - only when no step of the emulator itself is pending, the answer comes after the teardown steps and within timeout + reset allowance, the next invocation is served by newly exec'd processes.",
        note=SCEN_NOTE + " Time bounds are one-sided with slack (lower -2 ms, upper +1500 ms); the expiry race is sampled by offset, not enumerated.", technique="TLA+ spec + TLC validation of stamped full-stack traces (stall-phase enumeration, offset sweep)",
        engine="E4-scenarios + E3-trace", ref="DESIGN.md 6 C05"),
    "C09": dict(
        text="shutdown() is a sub-program of spec/Rapid.tla (kill-at-once without agents, TERM then conditional KILL at 30%, SHUTDOWN renderer and release of subscribers, kill of non-subscribers, kill at the deadline, wait for exit notifications or the 2 s grace). Scenarios enumerate runtime {exits on TERM, ignores TERM, already exited, never started} x 0..2 extensions {subscribed & exits, subscribed & ignores, subscribed & not polling, unsubscribed, already exited, failed to launch} x trigger {timeout reset, failure reset, explicit reset, shutdown} (feasible combinations; quick = stratified sample) with a fake supervisor that can delay exit notifications. TLC validates the millisecond-stamped traces with integer arithmetic in the trace specification (TERM before KILL, 30% rule, deadline rule, return after reaping and within deadline + grace + slack).",
        note=SCEN_NOTE + " Lower time bounds -3 ms, upper bounds +1500 ms.", technique="TLA+ spec + TLC validation of stamped full-stack traces (behaviour product enumeration)",
        engine="E4-scenarios + E3-trace", ref="DESIGN.md 6 C09"),
    "C15": dict(
        text="Platform lifecycle events are outputs (history sequence tel) of the actions of spec/Rapid.tla that the code emits them in, including the deferred senders of doRuntimeDomainInit in LIFO order, phase tags, first-fault error types and the extension lines with state and subscriptions at emission time. A recording EventsAPI puts them into the same trace as the actors' events; this check re-runs samples of the scenario families of C03-C09 with the lifecycle events bound: the i-th recorded event must equal the i-th event the specification emitted on the behaviour that explains the rest of the trace.",
        note=SCEN_NOTE, technique="TLA+ spec + TLC trace validation with the lifecycle-event history bound",
        engine="E4-scenarios + E3-trace", ref="DESIGN.md 6 C15"),
})

CHECKS.update({
    "C02": dict(
        text="Request-id middleware, runtime automaton, reply-stream checks (SendBody) and the addressing of platform-generated errors are modelled in spec/Rapid.tla. Scenarios enumerate histories {ok, error, timeout, crash} x placement of a stale / duplicate / unknown response or error {before the next invocation arrives, before the runtime polls, after delivery, after the response, after completion} x submission kind; TLC validates each trace: the submission is refused with 400/403, the caller of the following invocation receives exactly the body posted for its own id, the automaton continues as if the refused call had not happened. A further family submits a response / error for the current id after the platform's own error answer (extension fault), during the failure reset; another one makes a second submission while the first is still uploading its body (the specification has a header phase for slowly uploaded requests), also with a response-mode header that is refused.",
        note=SCEN_NOTE, technique="TLA+ spec + TLC trace validation of recorded full-stack traces (placement enumeration)",
        engine="E4-scenarios + E3-trace", ref="DESIGN.md 6 C02"),
    "C07": dict(
        text="Seeded random programs of the runtime, up to two external and one internal extension over the whole Runtime/Extensions API alphabet including misuse, stalls and exits (code 0, non-zero, signals) at any point, over one to three faulty generations, followed by a flushing and a healthy invocation, and histories in which the exit notification of a killed process arrives after the reset stopped waiting for it, are executed on the real stack (child processes: a crash of the emulator is observed directly). TLC validates every trace against the full composite spec/Rapid.tla: one outcome per invocation within the time bound (an invocation without outcome is an unexplainable event), bodies are posted bodies or platform errors, the healthy invocation is served.",
        note=SCEN_NOTE + " The random programs are samples of the behaviour space, not an enumeration.", technique="TLA+ spec + TLC trace validation of randomized full-stack programs; crash containment in child processes",
        engine="E4-scenarios + E3-trace", ref="DESIGN.md 6 C07"),
})

CHECKS.update({
    "C16": dict(
        text="spec/Env.tla transcribes the layering of env.Environment (customer map, unreserved platform defaults, credentials in both modes, reserved runtime variables incl. handler override, reserved platform variables incl. the Runtime API address; extension filter) over one variable per key class; TLC checks ReservedWin, UnshadowedArrive and AgentFiltered on all 1920 configurations, and every configuration is a test case executed through the real API (process environment, NewEnvironment, SetHandler, StoreRuntimeAPIEnvironmentVariable, StoreEnvironmentVariablesFromInit[ForInitCaching]) with the complete runtime and extension maps compared; a sample runs through the full stack (environments of the supervisor's Exec requests, registration over the advertised address, one case with an OS-chosen port).",
        note="Trusted: TLC, the TLA+ value parser, the replayer's string comparison. One representative variable name per key class; the front end's os.Environ forwarding is not part of this check.",
        technique="TLA+ transcription of the environment layering; TLC enumerates all configurations; each state replayed on the real API (spec -> code)",
        engine="E1-tlc + E2-cases", ref="DESIGN.md 6 C16"),
    "C20": dict(
        text="spec/Sanitize.tla transcribes the error-type grammar over symbol classes (all sequences up to length 5/6), the decision structure of the X-Ray error cause (document class x recognised fields x size class x escape class) and the budget arithmetic of the runtime identity string; TLC enumerates every abstract case with its expected classification (ReleaseBounded, ETypeTotal checked on the transcription). Each case is concretised into seeded random strings / documents (100 B to 1.5 MiB, quote-, control- and multi-byte-heavy) / header pairs and pushed through the real functions; the projection computes validity, length and prefix relations, the specification decides what is legal.",
        note="Trusted: TLC, the replayer's projection (JSON validity, byte length, prefix relation). Exhaustive over symbol / document classes, sampled within a class.",
        technique="TLA+ transcription of case-rich functions; TLC enumerates abstract cases; one implementation test per state (spec -> code)",
        engine="E1-tlc + E2-cases", ref="DESIGN.md 6 C20"),
})

CHECKS.update({
    "C18": dict(
        text="Snapshot mode is part of spec/Rapid.tla: restore routes of the runtime automaton (RestoreReady / Restoring / RestoreError), handleRestore (credential update, restore renderer, release of a parked runtime, wait with the hook deadline, first-fatal override, RestoreRuntimeDone event), the credentials endpoint keyed by the per-instance token. Scenarios enumerate the orders of {restore request, restore poll, hook completion, restore/error, init/error, hook timeout, runtime exit}, a runtime that never enters the restore poll, repeated restores, credentials with right / wrong / no token, and plain mode; TLC validates the stamped traces (outcome class, timeout not before the hook timeout and at most 500 ms after it, credentials label of the latest restore although each restore's credentials expire earlier than the ones held, no credentials in the Exec environment; a hook that outlives its deadline while an invocation arrives).",
        note=SCEN_NOTE, technique="TLA+ spec + TLC validation of stamped full-stack traces in init-caching mode",
        engine="E4-scenarios + E3-trace", ref="DESIGN.md 6 C18"),
})

CHECKS.update({
    "C19": dict(
        text="spec/Supervisor.tla states the supervisor contract (Exec, Terminate = SIGTERM to the group without waiting, Kill = SIGKILL to the group returning once the process is gone, exactly one truthful termination event per process); TLC checks AtMostOneEvent, EventOnlyAfterDeath, DeadStaysDead and, under fairness of event delivery, EveryDeathReported for two processes of every behaviour. Binding: black-box traces of the real supervisor.LocalSupervisor running seeded random concurrent programs of 2-4 real /bin/sh children {exit 0, exit 3, self-signal, trap TERM, ignore TERM, fork children, fork + ignore TERM, exit 0 leaving a child that holds the output pipe}, output through pipes into non-file writers (one of them slow), with Terminate / Kill (future and past deadlines, unknown names, repeats), plus a scripted trace (leaders that leave children behind, a Kill that waits 600 ms for the last words of an exited process while other processes are terminated - Terminate must not wait) are validated by TLC against spec/Trace_Supervisor.tla, with ground truth for 'gone' from pid files and /proc. The same trace specification validates the harness's fake supervisor, i.e. the contract every full-stack check assumes.",
        note="Trusted: TLC, /bin/sh signal semantics, /proc. Schedules are those the random programs produce.",
        technique="TLA+ contract spec + TLC; black-box trace validation of the real supervisor with real child processes",
        engine="E1-tlc + E3-trace", ref="DESIGN.md 6 C19"),
})

CHECKS.update({
    "C17": dict(
        text="spec/DirectInvoke.tla models ReceiveDirectInvoke over its four package variables and header classes; the state graph is finite, so TLC checks HistoryIndependent (a request's result equals its result on a fresh emulator) for all request sequences, and must exhibit the violation for the parser as found (vacuity guard). Every edge of the graph (65 088) is replayed on the real function (result, parsed mode, package variables, status, Error-Type, trailer announcement). Copy: TLC enumerates size x limit x chunking x read-failure cases with their classification; each runs through SendDirectInvokeResponse in buffered and streaming mode with a stamping writer (trailer class, forwarded length, byte-for-byte prefix); spec/TokenBucket.tla gives RateBound and termination for every chunking, and the streaming runs are checked against burst + rate x t on their write time stamps; a reset during a throttled copy, and during a copy blocked reading a runtime that stalled at an enumerated position (stallAt dimension of the copy cases; connection closed through the CancellableRequest), must end it Truncated with everything read so far forwarded.",
        note="Trusted: TLC, httptest recorder / stamping writer. One representative value per header class; rate bound with one refill quantum of slack; resets injected at one copy point per case.",
        technique="TLA+ transcription + TLC; state-graph edge cover replayed on the real parser; TLC-enumerated copy cases; stamped rate check",
        engine="E1-tlc + E2-walk/cases", ref="DESIGN.md 6 C17"),
})

NA = {
}

PENDING = "check not built yet in this round (planned, see DESIGN.md section 11)"


MC = {
    "C01": ["OkHasBody", "StreamOwnerIsReserver", "NoGhostInvoke"], "C02": ["StreamOwnerIsReserver", "OkHasBody"],
    "C03": ["RuntimeAfterRegistrations", "NoEventBeforeAllNext"], "C04": ["DoneOnlyAfterAll", "EventsOnlyToSubscribers"],
    "C05": ["NoGhostInvoke", "NoCrash"], "C07": ["NoCrash"], "C08": ["ResetIsFresh"],
    "C09": ["EventsOnlyToSubscribers", "FailResetShutdownOnlyToSubscribers", "NoCrash"],
    "C10": ["NoCrash", "StreamOwnerIsReserver", "OkHasBody", "NoGhostInvoke (two-caller configuration included)"],
    "C18": ["RestoreOkOnlyAfterHook", "NoCrash", "RuntimeAfterRegistrations (snapshot-mode configuration included)"],
}
FORCED = {"C01": "late-done-ok, late-done-fail", "C02": "stale-error-in-flight, stale-response-in-flight, stale-error-slow-body, stale-response-slow-big", "C03": "clear-vs-invoke, register-vs-close", "C04": "dispatch-held",
          "C05": "ghost-invoke, clear-vs-invoke, stale-shutdown", "C08": "watch-late-cancel, clear-vs-invoke, stale-failure-record",
          "C10": "double-reset, late-release, final-release, late-done-ok, late-done-fail"}
SIMULATED = ("C07", "C12", "C13")
RAPID = ["C01", "C02", "C03", "C04", "C05", "C06", "C07", "C08", "C09", "C10", "C12", "C13", "C14", "C15", "C18"]


def main():
    checks = []
    for pid in sorted(CHECKS):
        c = dict(CHECKS[pid])
        c["ref"] = "DESIGN.md section 5 (row %s), sections 2-3" % pid
        if pid in MC:
            c["text"] += (" In addition TLC model-checks the composite (spec/MC_Rapid.tla: Rapid closed with an environment of runtime, "
                          "extensions, callers, process exits, timer expiry and API misuse) for the invariants %s over every interleaving "
                          "within small bounds." % ", ".join(MC[pid]))
            c["technique"] = "TLC model checking of the composite TLA+ spec (MC_Rapid invariants); " + c["technique"]
            c["engine"] = "E1-tlc + " + c["engine"]
        if pid in RAPID:
            c["text"] += (" The property predicates of spec/Rapid.tla (PropHolds) are evaluated in every state of the behaviour that "
                          "explains a recorded trace; a failing predicate is reported even when the trace is explainable.")
        if pid in SIMULATED:
            c["text"] += (" One scenario family consists of environment programs generated by TLC: simulated behaviours of spec/MC_Rapid.tla "
                          "(bounds beyond the exhaustive configurations, with API misuse) whose environment steps are replayed on the real stack.")
            c["technique"] += "; TLC-simulated behaviours replayed into the implementation"
        if pid in ("C01", "C05", "C10", "C14"):
            c["text"] += (" The HTTP front end (cmd/aws-lambda-rie InvokeHandler, compiled unchanged into the harness through a build "
                          "overlay) is specified in spec/FrontEnd.tla (once-only initialisation under a mutex, status mapping), model-checked, "
                          "and scenario families entering through it are validated against spec/Trace_FrontEnd.tla in addition.")
        if pid in FORCED:
            c["text"] += (" Forced schedules (%s) hold goroutines of the real emulator at pause points compiled in with -tags verif; "
                          "they replay TLC counterexamples of the model of the code as found." % FORCED[pid])
        checks.append({
            "property_id": pid,
            "quick_cmd": "./check %s --tier quick" % pid,
            "thorough_cmd": "./check %s --tier thorough" % pid,
            "evidence_file": "/verif/evidence/%s.json" % pid,
            "replay_cmd_template": "./check replay {path}",
            "engine": c["engine"],
            "level_claimed": {"category": c.get("category", "model_checking"), "text": c["text"], "design_ref": c["ref"]},
            "level_note": c["note"],
            "technique": c["technique"],
        })
    na = []
    for i in range(1, 21):
        pid = "C%02d" % i
        if pid not in CHECKS:
            na.append({"property_id": pid, "reason": NA.get(pid, PENDING)})
    try:
        commits = subprocess.run(["git", "-C", "/repo", "log", "--format=%h %s", "f19fc1a..HEAD"], capture_output=True, text=True).stdout.splitlines()
    except Exception:
        commits = []
    hook_commits = [c.split()[0] for c in commits if "verif hook" in c or c.split(" ", 1)[1].startswith("verif:")]
    m = {
        "version": 1,
        "setup_cmd": "./check setup",
        "hooks": {
            "guard": "verif",
            "enable": "go build -tags verif (the harness binary build/vh is built from /repo's working tree with the tag)",
            "baseline_off_cmd": "cd /repo && GOFLAGS=-mod=mod GOPROXY=off go test -vet=off -count=1 -timeout 25m ./...",
            "source_commits": hook_commits,
            "add_only": True,
        },
        "engines": [
            {"name": "E1-tlc", "path": "lib/tlc.py", "serves_properties": sorted(CHECKS), "kind_free_text": "TLC model checking of the TLA+ specifications in spec/"},
            {"name": "E2-walk", "path": "lib/walk.py + harness/gate", "serves_properties": ["C11"], "kind_free_text": "edge-covering walks of TLC state graphs replayed on the real objects"},
            {"name": "E3-trace", "path": "lib/tracecheck.py + lib/traceprep.py + spec/Trace_Rapid.tla", "serves_properties": [p for p in sorted(CHECKS) if p != "C11"], "kind_free_text": "TLC validation of recorded ndjson traces against the specification (internal steps, high-water mark acceptance)"},
            {"name": "E4-scenarios", "path": "lib/scen.py + lib/runner.py + harness/stack", "serves_properties": [p for p in sorted(CHECKS) if p != "C11"], "kind_free_text": "scenario scripts executed on the in-process emulator stack with a fake supervisor and scripted actors"},
        ],
        "checks": checks,
        "notes": "Model-based verification with explicit TLA+ specifications (spec/), TLC, and conformance engines binding the specifications to the code. See DESIGN.md.",
        "not_applicable": na,
    }
    with open(os.path.join(V, "MANIFEST.json"), "w") as f:
        json.dump(m, f, indent=1)
        f.write("\n")
    print("manifest: %d checks, %d not claimed" % (len(checks), len(na)))


if __name__ == "__main__":
    main()
