#!/usr/bin/env python3
"""Run TLC on a model-checking config and print a counterexample as per-step differences.
usage: tools/cex.py <module> <cfg> [timeout]"""
import os, re, sys
sys.path.insert(0, os.path.join(os.path.dirname(os.path.abspath(__file__)), "..", "lib"))
import tlc, tlaparse


def flat(v, pre, out):
    if isinstance(v, dict):
        for k, x in v.items():
            flat(x, pre + "." + str(k) if pre else str(k), out)
    elif isinstance(v, list) and v and all(isinstance(x, dict) for x in v):
        for i, x in enumerate(v):
            flat(x, "%s[%d]" % (pre, i + 1), out)
    else:
        out[pre] = v


def steps(res):
    prev = {}
    for raw in res.trace:
        m = re.match(r"State (\d+): <?(\w+)?", raw)
        body = raw.split("\n", 1)[1] if "\n" in raw else ""
        try:
            stt = tlaparse.parse_state(body)
        except Exception as e:  # noqa
            yield m.group(1), m.group(2), {"parse": str(e)}
            continue
        cur = {}
        flat(tlaparse.to_jsonable(stt), "", cur)
        cur = {k: v for k, v in cur.items() if not k.startswith("st.tel")}
        diff = {k: v for k, v in cur.items() if prev.get(k, None) != v}
        gone = [k for k in prev if k not in cur]
        for k in gone:
            diff[k] = "<gone>"
        yield m.group(1), m.group(2), diff if prev else {"(initial)": len(cur)}
        prev = cur


if __name__ == "__main__":
    r = tlc.run_tlc(sys.argv[1], sys.argv[2], timeout=int(sys.argv[3]) if len(sys.argv) > 3 else 600)
    print(r.summary())
    for n, act, d in steps(r):
        print("%s %s  %s" % (n, act, "  ".join("%s=%s" % (k, v) for k, v in sorted(d.items()))))
