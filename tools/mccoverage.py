#!/usr/bin/env python3
"""Which steps of the emulator (the Step(<enabled>, <next state>) disjuncts of spec/MC_Rapid.tla) are never taken in the
model-checking configurations?  TLC -coverage counts every sub-expression; the count of the <next state> argument of a
Step is the number of times the step was taken.  usage: tools/mccoverage.py [config ...]"""
import os, re, sys
sys.path.insert(0, os.path.join(os.path.dirname(os.path.abspath(__file__)), "..", "lib"))
import tlc, mcrapid


def main():
    names = sys.argv[1:] or ["base", "misuse", "race", "restore", "two"]
    src = open(os.path.join(tlc.SPEC, "MC_Rapid.tla")).read().splitlines()
    taken_any = {}
    scratch = tlc.make_scratch("cov-")
    for name in names:
        path = os.path.join(scratch, "c_%s.cfg" % name)
        open(path, "w").write(mcrapid.cfg_text(name, ["NoCrash"], "KnownFindingsCutOff"))
        r = tlc.run_tlc("MC_Rapid", path, timeout=3000, coverage=True, heap="12g")
        per_line = {}
        for m in re.finditer(r"line (\d+), col (\d+) to line (\d+), col (\d+) of module MC_Rapid: (\d+)", r.out):
            per_line.setdefault(int(m.group(1)), []).append((int(m.group(2)), int(m.group(5))))
        n0 = 0
        for i, line in enumerate(src, 1):
            k = line.find("Step(")
            if k < 0 or i not in per_line:
                continue
            comma = line.find(",", k)
            args = [c for col, c in per_line[i] if col > comma]      # sub-expressions of the <next state> argument
            took = max(args) if args else 0
            key = re.sub(r"\s+", " ", line.strip())[:100]
            taken_any[key] = taken_any.get(key, 0) + took
            n0 += took == 0
        print("%-8s %9d distinct states, steps never taken: %d" % (name, r.distinct, n0))
    print("never taken in any configuration:")
    for k, v in sorted(taken_any.items()):
        if v == 0:
            print("   ", k)


if __name__ == "__main__":
    main()
