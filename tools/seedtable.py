#!/usr/bin/env python3
"""Completes seeded/<id>/meta.json from verify.json / NOTES.md and writes the table of DESIGN.md section 8
(between the markers <!-- SEEDS --> and <!-- /SEEDS -->)."""
import json, os, re

ROOT = "/verif/seeded"
SUMMARY = {
 "C01-a": "invoke request buffer drained on render instead of cleared per invocation (stale bytes after an aborted or repeated poll)",
 "C01-b": "deadline stamped after the init wait instead of at arrival (cold start)",
 "C02-a": "id comparison removed from sendResponseUnsafe (middleware 'already checks'): a submission validated for request 1 and delivered after request 2 was dispatched lands on caller 2",
 "C03-a": "registration closed only after the agents barrier (late registration accepted, init completes without it)",
 "C03-c": "CreateInternalAgent checks 'registration open' before building the agent and never re-checks (needs a goroutine paused inside uuid.New())",
 "C04-a": "agent-ready gate of the invoke flow no longer re-armed between invocations",
 "C04-c": "agents released before the renderer of the invocation is installed (stale event / 500 in a microsecond window)",
 "C05-a": "rapid context not re-armed when the reset reports a failure (SHUTDOWN subscriber killed at the deadline): next invocation starts nothing and times out",
 "C06-a": "first fatal error dropped at the start of every invoke (wrong error type after a fault while idle)",
 "C06-b": "'flows already cancelled' latch survives a reset",
 "C07-a": "InitializeBarriers uses Clear instead of Reset: a process exit while idle is forgotten, the next invocation wedges forever",
 "C08-a": "a gate remembers that it was once cancelled (survives Clear)",
 "C08-c": "identifier map of external agents not emptied on reset: identifiers of the previous generation stay valid",
 "C09-a": "exit channel created before Exec (Kill / wait for a process that was never started)",
 "C09-c": "exit channel created before Exec and not removed when the launch fails: Kill of a never-started process, 2 s stall of every later reset",
 "C10-a": "reservation released before the failure reset",
 "C10-c": "reservation cancel function replaced before the AlreadyReserved check: a refused caller breaks the timeout of the one in flight (hang)",
 "C11-a": "last arrival wakes one waiter instead of all",
 "C12-a": "a restore request answers a pending /runtime/invocation/next",
 "C12-b": "a refused init/error still delivers its error to the platform",
 "C13-a": "an accepted exit/error is not final while /next is pending",
 "C13-c": "ten-extension limit checked after the insert: the refused eleventh stays registered (init hangs)",
 "C14-a": "oversized-response size read through a limit reader (wrong size in the error)",
 "C14-c": "response body read through a LimitReader(limit+1): every oversize response is reported as limit+1 bytes",
 "C15-a": "reset reason compared case-insensitively: runtime-done events without start / duplicated",
 "C15-c": "deferred init-runtime-done evaluates its status argument at the defer: failures reported as success",
 "C16-a": "extension environment filter reuses a helper that lets _HANDLER through",
 "C17-a": "token bucket capacity max(burst, refill quantum)",
 "C18-a": "credentials updated only when the runtime is parked in restore/next",
 "C19-a": "process map entry deleted after a successful Kill: second Kill / Terminate fail as unknown",
 "C01-d": "request-id middleware compares ids case-insensitively: a submission with the id in another letter case consumes the runtime's state transition, the genuine answer is refused",
 "C02-d": "same middleware change as C01-d (independently chosen): a refused submission has an effect",
 "C05-d": "front end: the timeout branch falls through to the shared tail: timeout text followed by the response the runtime had already handed in",
 "C06-d": "AwaitGateCondition returns success for a gate that is full although cancelled: exit while idle after a completed invocation -> empty success forever",
 "C07-d": "cancelOnce re-armed in PreregisterRuntime instead of Clear: after one faulty generation CancelFlows is a no-op during the extension phase, the next stall wedges the emulator",
 "C09-d": "ExternalAgent.Release skipped while the agent is Running: a SHUTDOWN subscriber busy with an event never gets its SHUTDOWN, is killed at the deadline",
 "C12-d": "runtime event rendered with buffer.WriteTo (drains): a repeated /next returns the same id with an empty body",
 "C18-d": "restore returns at once while init has not completed (extension still initialising) although the runtime is parked in restore/next",
 "C03-f": "SetExternalAgentsRegisterCount moved after the launch loop: an extension that registers while a sibling is still being launched is not counted, the runtime is never started",
 "C06-f": "graceful shutdown skipped when no extension is subscribed to SHUTDOWN: the extension processes of a failed environment are never killed",
 "C07-f": "Server.Reset clears the reservation only when the reset succeeded: after a SHUTDOWN subscriber had to be killed the invocation never returns / every later one is AlreadyReserved",
 "C08-f": "reinitialize no longer deletes the first fatal error: a fault reported while the reset shuts down is blamed on the next generation",
 "C10-f": "doInvoke waits for the agents only if an *external* extension is subscribed to INVOKE: with an internal one the invocation ends (reservation released) while that extension is still busy",
 "C11-f": "SetCount refused (below arrivals) still lowers the count",
 "C12-f": "request-id middleware compares case-insensitively: a case-variant id is refused by the server only after the runtime state has moved",
 "C15-f": "same change as C08-f, asked for under C15: InitRuntimeDone of the next generation carries the stale Extension.ExitError",
 "C01-g": "response body read into a buffer shared across invocations: the front end still holds (and writes out) a slice of it when the next invocation's response overwrites it",
 "C02-g": "ReplySent no longer refuses a runtime /response: a late submission after the platform's own error reply is appended to it, the handler blocks holding the server mutex, the reset never ends",
 "C04-g": "trace header in the extensions' INVOKE event parsed and re-built: non-canonical values (Lineage, other order, no Sampled, opaque) are altered or dropped",
 "C05-g": "graceful shutdown skipped when no extension is subscribed to SHUTDOWN (same shortcut as C06-f, asked for under C05): extensions survive the timeout, the answer comes 2 s late",
 "C09-g": "shutdown takes the 'no agents' shortcut when the runtime was never started: launched extensions get no SHUTDOWN and are not killed",
 "C13-g": "exit/error of an internal extension calls InitError: refused after the first next, wrong final state right after register",
 "C14-g": "Content-Length fast path refuses a response of exactly the limit (< instead of <=)",
 "C16-g": "overlay order of the runtime environment swapped for the first two layers: a customer value of AWS_XRAY_DAEMON_ADDRESS wins over the platform's",
 "C17-g": "reset of a streaming copy waits for the copy before closing the runtime's connection: a copy blocked reading a stalled runtime never ends",
 "C18-g": "UpdateCredentials ignores restore credentials that expire earlier than the ones held",
 "C19-g": "Exec sets WaitDelay: a process that exits 0 while a child keeps its output open is reported with exit status 1",
 "C20-g": "error-type pattern hoisted into a package regexp with [A-z] instead of [a-zA-Z]: types with [ \\ ] ^ _ ` pass",
 "C01-h": "RegistrationService.Clear no longer re-arms cancelOnce: flows can be cancelled once per emulator instance, the second timeout / crash hangs forever",
 "C02-h": "a refused submission (400) still calls runtime.ResponseSent(): a stale /error delivered after the next dispatch opens that invocation's response barrier, its own /response panics (ErrGateIntegrity)",
 "C03-h": "ListExternalAgentPaths skips dot-named entries: such an extension is neither launched nor awaited",
 "C04-h": "HasActiveExtensions ignores Running extensions: the invocation completes while every INVOKE subscriber is still busy",
 "C08-h": "completion record of a failed invocation stamped with the *current* invoke id: produced after the timeout reset it is empty and the next invocation takes it for its own",
 "C10-h": "front end: initMutex guards only the flag, not InitHandler: a second first-ever caller re-initialises the live sandbox",
 "C12-h": "Runtime.Release dropped unless the runtime is parked: an invocation arriving while the runtime is busy with its restore hook is never delivered to the following next",
 "C17-h": "streaming copy cut at the default payload limit + 1 instead of the per-request limit + 1",
 "C18-h": "init/error in the Restoring state builds the restore error from the raw header (sanitising skipped)",
 "C19-h": "kill() reports the ESRCH of its fallback signal: a Kill racing a natural exit whose output is still draining fails instead of succeeding",
 "C05-i": "RegistrationService.Clear no longer re-arms cancelOnce (same line as C01-h, asked for under C05): the second stalled invocation on an instance is never answered",
 "C06-i": "cached init error no longer dropped by Server.Clear but only on an error that never occurs: a later fault in a healthy generation is answered with the old init-error payload",
 "C07-i": "a failed invocation is answered before its reset: every invocation arriving while the reset runs fails with AlreadyReserved",
 "C09-i": "one shared deadline context for all SHUTDOWN subscribers, cancelled by the first one that exits: the others are killed at once",
 "C11-i": "AwaitGateCondition waits once (if) instead of re-testing (for): a waiter woken by an arrival returns although a re-arm made the condition false again",
 "C13-i": "register response built once and cached: the accountId feature of one registration leaks into every later one, metadata frozen at the first",
 "C14-i": "Function.ResponseSizeTooLarge reply cached per limit: a second oversized response of another size is reported with the first one's size",
 "C15-i": "AwaitGateCondition returns success when the count is met although the gate was cancelled: after an idle crash the next invocation 'succeeds' (start / runtime-done success for a dead runtime)",
 "C16-i": "with an empty init handler the customer's _HANDLER is written into the reserved runtime layer and beats the reserved handler",
 "C20-i": "error cause parsed with json.Decoder: a well-formed document followed by further bytes is accepted",
 "C01-j": "a failed invocation is answered before its reset (same swap as C07-i, asked for under C01): the next event, posted right after the 502, is refused and never reaches the runtime",
 "C02-j": "/error handler moves the runtime state only after the body has been read: a stale submission whose body is completed after the next dispatch is refused but moves the new runtime's state",
 "C03-j": "the init ready-barrier counts only extensions that subscribed to something: an extension registered with no events is not awaited (or makes init fail with ErrGateIntegrity)",
 "C04-j": "agent-ready count of the invoke flow omits internal INVOKE subscribers: the invocation completes while one subscriber is still busy",
 "C08-j": "cancelOnce re-armed in PreregisterRuntime instead of Clear: after a reset, an exit during the next generation's registration phase goes unnoticed (hang)",
 "C10-j": "Reserve refuses with ErrAlreadyReplied once the held reservation's reply was sent: the front end has an empty case for it and answers 200 with an empty body",
 "C12-j": "init type stored after the Runtime API server is built: in snapshot mode the restore routes are never mounted (404)",
 "C17-j": "Invoke.ID taken from the token instead of the Invoke-Id header: the id check compares the token with itself, a direct invoke for another id is accepted",
 "C18-j": "HandleRestore takes the handler mutex: a restore request before the restore poll blocks until init ends instead of returning at once",
 "C19-j": "Terminate returns without signalling when the leader has already exited: members of its group never get the SIGTERM",
 "C05-k": "FastInvoke returns as soon as rapid reports the reset: nobody receives on sendResponseChan during the teardown, a response posted then blocks with the server mutex held (hang)",
 "C06-k": "error of the last wait of an invocation (AwaitAgentsReady) logged but not returned (shadowed err): a fault while an INVOKE subscriber is still busy is answered with success, recovery one invocation late",
 "C07-k": "shutdownAgents counts an agent without exit channel in the WaitGroup before skipping it: the reset after a failed cold start with an extension never ends",
 "C09-k": "kill deadline min(now+9s, shutdown deadline): at the deadline it is already expired, the supervisor refuses, processes that ignore SIGTERM are never killed",
 "C11-k": "Clear re-arms through Reset's helper: clearing a cancelled gate keeps the arrivals of the previous generation",
 "C13-k": "subscription loop moved in front of the state check: a refused second register still merges its events into the subscriptions",
 "C14-k": "front end reads the event through http.MaxBytesReader: an oversized event is refused with 500 instead of being cut",
 "C15-k": "extension status lines deferred only after doInitExtensions succeeded: an init that fails during extension launch / registration emits none",
 "C16-k": "acceptInitRequestForInitCaching reuses acceptInitRequest, which stores the long-term credentials: customer variables with the credential names are overwritten in snapshot mode",
 "C20-k": "identity string passed through strings.ToValidUTF8 after the budget was computed: isolated non-UTF-8 bytes triple",
 "C01-l": "the read error of the runtime's response upload is discarded: a body cut short in the middle is treated as the complete answer",
 "C02-l": "Reserve takes the caller-supplied Invoke.ID: request ids are no longer unique, a late submission of an earlier invocation with the same id is accepted",
 "C03-l": "extension init/error for a registered extension also counts as its arrival at the agents-ready barrier",
 "C04-l": "invoke barriers armed and subscribers computed before the suppressed init: the first invocation after a reset reaches no extension",
 "C08-l": "reinitialize only after a successful reset: after a reset that had to kill a SHUTDOWN subscriber the state of the old generation survives",
 "C10-l": "body of a response without declared length (chunked) is still read under the server mutex: a caller arriving during such an upload is refused late",
 "C12-l": "next handler caches the runtime object of the first generation: after a reset next drives the dead runtime's automaton",
 "C17-l": "buffered direct-invoke response of exactly the limit is labelled Oversized (>= instead of == limit + 1)",
 "C18-l": "restore hook deadline only set for a positive timeout: with 0 ms a silent runtime makes the restore wait for ever",
 "C19-l": "exit statuses 129..159 reported as death by signal N-128",
 "C05-m": "the function timeout is not signalled when the runtime state is 'response sent': a runtime that answers and never polls again leaves the invocation unanswered for ever",
 "C06-m": "HandleShutdown re-arms the context too (defer reinitialize): after a failed cold start the invocation quietly starts a fresh generation and succeeds, no reset, the init error is never delivered",
 "C07-m": "InternalAgentsMap.Clear ranges over the id index while deleting from the name index: an internal extension survives every reset as a ghost that later inits wait for",
 "C09-m": "the shutdown of a failed cold init is skipped for Extension.LaunchError: extensions launched before the failing one are orphaned",
 "C11-m": "the invoke flow clears its agents latch with Reset instead of Clear: after cancel-then-clear it keeps cancellation, arrivals and count",
 "C13-m": "ExternalAgentsMap / InternalAgentsMap.Clear delete from the id index by name: identifiers of the previous generation still resolve",
 "C14-m": "response read into a pooled buffer handed to the reply stream without copying: the front end's pending write of invocation N is overwritten by N+1 (at the size limit)",
 "C15-m": "an extension that exits with status 0 is no longer recorded as the first fault: init-runtime-done reports Runtime.Unknown",
 "C16-m": "mapExclude deletes in place and AgentExecEnv filters the stored customer map: computing an extension's environment strips the runtime's",
 "C20-m": "init/error stores the X-Ray cause header for the tracer checked with json.Valid only: a second, unsanitised entry point",
 "C01-n": "front end sizes the event buffer from Content-Length and treats -1 (chunked / streamed request) as no body: the event is dropped",
 "C02-n": "response-mode header validated before the runtime's state transition: a second submission with a bad mode header during the first one's upload answers the caller and makes the first one fail",
 "C03-n": "agents-ready barrier skipped when init runs inside an invocation: after a reset the runtime is served before a registered extension asked for its next event",
 "C04-n": "subscribed external agents memoised across resets: invocations of later generations are fanned out to the agent objects of the first",
 "C08-n": "cached init error consumed on use instead of cleared by the reset: the failure left by an interrupted init answers a crash generations later",
 "C10-n": "InitializeBarriers no longer re-arms the agents-ready gate: the next invocation does not wait for the extensions of the previous one",
 "C12-n": "a cancelled gate makes WalkThrough fail: after a restore hook timeout the runtime's next is refused with 403",
 "C17-n": "token bucket grants a chunk whenever any token is left: streamed responses exceed the rate bound",
 "C18-n": "credentials map seeded from the emulator's own environment: in snapshot mode the static credentials are placed in the runtime's environment",
 "C19-n": "Kill holds the process-table lock across its wait: Terminate / Kill / Exec of other processes queue behind a slow one",
 "C05-o": "reset deadline computed from the wall clock but compared with the monotonic clock: the kill at the deadline never comes, a timed-out invocation with a stalled SHUTDOWN subscriber is never answered",
 "C06-o": "the init-failure channel is not closed after an init failure: the invocation after the failed one waits for an init outcome for ever",
 "C07-o": "exit channels forgotten also when the reset gave up waiting for them: the late exit notification of a stubborn process panics the watcher",
 "C09-o": "shutdown after a failed cold init gets a wall-clock deadline (compared with the monotonic clock): SHUTDOWN deadline decades ahead, nothing is ever killed",
 "C11-o": "CancelWithError ignores every cancellation after the first: a waiter gets the first error, not the most recent one",
 "C13-o": "exit/error checks for the error-type header only after the state transition: a refused (403 MissingHeader) call moves the extension to ExitError",
 "C14-o": "the response size limit is only applied when the runtime did not declare a streamed response: an oversized body with the streaming header reaches the caller",
 "C15-o": "an error at the overhead step (fault between response and next) is returned only after invoke-runtime-done was sent with status success",
 "C16-o": "AWS_LAMBDA_RUNTIME_API built from the configured host and port instead of the listener's: with port 0 processes are told :0",
 "C20-o": "the last-resort crop of the error cause crops message and working_directory once to a per-string worst case: two escape-heavy strings together exceed 64 KiB",
 "C01-p": "failure completion message posted without its invocation id: a late one (sender delayed across a timeout reset) completes the next invocation with 502 / empty body",
 "C02-p": "SendResponse reports an oversized body before the id check: a stale oversized /response panics the handler instead of being refused with 400",
 "C03-p": "agent maps' Clear leaves the identifier index: a late /next with an identifier of the previous generation counts as an arrival at the new init barrier",
 "C04-p": "register with an empty event list is taken as INVOKE + SHUTDOWN",
 "C08-p": "the runtime's identity string is forgotten when the next runtime is started instead of at the reset: a generation that fails before its runtime is launched reports the previous one's",
 "C10-p": "success completion message posted without its invocation id: a late one releases the next invocation early (empty answer, a further caller admitted)",
 "C12-p": "buffered response body wrapped in MaxBytesReader(limit + 1): limit + 2 bytes or more break the handler - no 413, runtime stuck in its response state",
 "C17-p": "Trailer header Set instead of Add for a streaming-mode function in a buffered direct invoke: the End-Of-Response trailer is no longer announced and is dropped",
 "C18-p": "the watcher releases the runtime's parked poll when the runtime exits: a restore requested after the runtime died in its restore poll is reported successful",
 "C19-p": "the expired-deadline check of Kill moved before the already-terminated fast path: Kill of an exited process fails and its group is left alone",
 "C04-e": "AwaitRuntimeReady of the invoke flow waits on the response gate: the invocation completes before the runtime asked for next",
 "C11-e": "a cancelled gate whose count is met returns success from AwaitGateCondition",
 "C13-e": "event validation of register only looks at the last element: an illegal event before a legal one registers a ghost / wrong error type",
 "C14-e": "request buffer refilled on every render: a second /next of an oversized event delivers it un-cut",
 "C16-e": "AWS_SESSION_TOKEN stored only if non-empty: with long-term credentials a customer variable of that name reaches runtime and extensions",
 "C17-e": "bucket refill cached in a package variable updated only when the rate header is present: sticky rate across requests",
 "C19-e": "events channel buffered (16) with non-blocking send: termination events dropped when many processes exit while nobody reads",
 "C20-e": "the 'Unknown' user-agent placeholder not counted in the 128-byte budget of the runtime release string",
 "C20-a": "error cause compacted only if the *incoming* document exceeded the limit (re-encoding grows it)",
}


def main():
    rows = []
    for sid in sorted(os.listdir(ROOT)):
        d = os.path.join(ROOT, sid)
        if not os.path.exists(os.path.join(d, "patch.diff")):
            continue
        mp = os.path.join(d, "meta.json")
        meta = json.load(open(mp)) if os.path.exists(mp) else {"id": sid}
        v = json.load(open(os.path.join(d, "verify.json"))) if os.path.exists(os.path.join(d, "verify.json")) else {}
        notes = open(os.path.join(d, "NOTES.md")).read() if os.path.exists(os.path.join(d, "NOTES.md")) else ""
        meta.setdefault("id", sid)
        meta["property"] = sid.split("-")[0]
        meta["breaks"] = SUMMARY.get(sid, meta.get("breaks", "see NOTES.md"))
        if not meta.get("needs_to_manifest") or meta["needs_to_manifest"] == "see NOTES.md":
            m = re.search(r"(?is)(needs?[^\n]{0,60}manifest[^\n]*\n+|only (shows|manifests)[^\n]*\n*)(.*?)(\n#|\n\*\*|\Z)", notes)
            meta["needs_to_manifest"] = (m.group(0).strip()[:900] if m else "see NOTES.md")
        meta["source"] = "fresh sub-agent given only the property text and a scratch worktree under /tmp"
        meta["ported"] = os.path.exists(os.path.join(d, "patch.orig.diff"))
        meta["verified_by_me"] = {
            "in": "fresh scratch worktree of /repo (tools/seedverify.py), removed afterwards",
            "builds": v.get("builds"), "suite_passes_with_change": v.get("suite_passes_with_change"),
            "demo_cmd": v.get("demo_cmd"), "demo_fails_with_change": v.get("demo_fails_with_change"),
            "demo_passes_without_change": v.get("demo_passes_without_change")}
        meta["what_i_ran"] = ("tools/seedverify.py (build, existing suite with the change, demonstration with / without the change), then "
                              "tools/seedmatrix.py: patch applied in a scratch worktree, the checks listed in last_matrix_run.checks run "
                              "against it (VERIF_REPO), worktree removed")
        json.dump(meta, open(mp, "w"), indent=1)
        run = meta.get("last_matrix_run", {})
        det = run.get("detected_by", [])
        chk = run.get("checks", {})
        first = ""
        for c in det:
            first = re.sub(r"^violation detail: ", "", chk[c].get("first", ""))[:110]
            break
        status = ", ".join(det) if det else ("**not detected**" if run.get("applies", True) else "does not apply")
        rows.append("| %s%s | %s | %s | %s |" % (sid, " (ported)" if meta["ported"] else "", meta["breaks"], status, first.replace("|", "/")))
    table = ("| seed | change | detected by | first report |\n|---|---|---|---|\n" + "\n".join(rows) + "\n")
    p = "/verif/DESIGN.md"
    s = open(p).read()
    if "SEED_TABLE_PLACEHOLDER" in s:
        s = s.replace("SEED_TABLE_PLACEHOLDER", "<!-- SEEDS -->\n" + table + "<!-- /SEEDS -->")
    else:
        s = re.sub(r"<!-- SEEDS -->.*?<!-- /SEEDS -->", lambda m: "<!-- SEEDS -->\n" + table + "<!-- /SEEDS -->", s, flags=re.S)
    open(p, "w").write(s)
    print(table)


if __name__ == "__main__":
    main()
