#!/usr/bin/env python3
"""Developer aid: apply one textual mutation to /repo, run checks, revert.
usage: muttest.py <file> <old> <new> <check> [<check> ...]   (old/new may be @file)
Never leaves /repo modified (git checkout of the file afterwards)."""
import subprocess
import sys
import os


def arg(a):
    if a.startswith("@"):
        return open(a[1:]).read()
    return a.encode().decode("unicode_escape")


def main():
    f, old, new = sys.argv[1], arg(sys.argv[2]), arg(sys.argv[3])
    checks = sys.argv[4:]
    path = os.path.join("/repo", f)
    src = open(path).read()
    if src.count(old) != 1:
        print("pattern occurs %d times" % src.count(old))
        return 2
    open(path, "w").write(src.replace(old, new))
    try:
        env = dict(os.environ, GOFLAGS="-mod=mod", GOPROXY="off")
        b = subprocess.run(["go", "build", "./..."], cwd="/repo", env=env, capture_output=True, text=True)
        if b.returncode != 0:
            print("mutant does not compile:\n" + b.stderr[-2000:])
            return 2
        for c in checks:
            p = subprocess.run(["/verif/check", c], capture_output=True, text=True)
            lines = [l for l in p.stdout.splitlines() if l.startswith(("VIOLATION", "violation detail", "RESULT", "INCONCLUSIVE", "KNOWN"))]
            print("== %s rc=%d" % (c, p.returncode))
            print("\n".join(lines[:6]))
    finally:
        subprocess.run(["git", "-C", "/repo", "checkout", "--", f])
    return 0


if __name__ == "__main__":
    sys.exit(main())
