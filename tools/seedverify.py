#!/usr/bin/env python3
"""Verify a seeded change in a fresh scratch worktree and run the checks against it.

usage: seedverify.py <id> <outdir> <demo-spec> <checks...>
  demo-spec: comma separated  file=dest_dir  pairs, then ';' and the go test command (run in the worktree)
Steps: (1) fresh worktree of /repo HEAD under /tmp/sv, apply patch, go build, existing tests pass,
(2) demonstration fails with the patch and passes without, (3) apply the patch to /repo, run the checks,
revert /repo.  Writes /verif/seeded/<id>/ (patch.diff, demonstration, meta.json)."""
import json, os, shutil, subprocess, sys

ENV = dict(os.environ, GOFLAGS="-mod=mod", GOPROXY="off", GOSUMDB="off", GOTOOLCHAIN="local")


def sh(cmd, cwd, timeout=1200):
    p = subprocess.run(cmd, cwd=cwd, env=ENV, shell=True, capture_output=True, text=True, timeout=timeout)
    return p.returncode, (p.stdout + p.stderr)


def main():
    sid, outdir, demo, checks = sys.argv[1], sys.argv[2], sys.argv[3], sys.argv[4:]
    files, cmd = demo.split(";", 1)
    placements = [f.split("=") for f in files.split(",") if f]
    wt = "/tmp/sv/" + sid
    subprocess.run(["git", "-C", "/repo", "worktree", "remove", "--force", wt], capture_output=True)
    os.makedirs("/tmp/sv", exist_ok=True)
    assert sh("git -C /repo worktree add -q --detach %s HEAD" % wt, "/")[0] == 0
    res = {"id": sid}
    try:
        patch = os.path.join(outdir, "patch.diff")
        rc, out = sh("git apply %s" % patch, wt)
        res["patch_applies"] = rc == 0
        if rc != 0:
            print(out)
            return 1
        rc, out = sh("go build ./...", wt)
        res["builds"] = rc == 0
        rc, out = sh("go test -vet=off -count=1 ./... 2>&1 | grep -v '^ok\\|no test files'", wt)
        res["suite_passes_with_change"] = out.strip() == ""
        if out.strip():
            print("suite output:", out[-1500:])
        for f, dest in placements:
            os.makedirs(os.path.join(wt, dest), exist_ok=True)
            shutil.copy(os.path.join(outdir, f), os.path.join(wt, dest, f))
        rc, out = sh(cmd, wt)
        res["demo_fails_with_change"] = rc != 0
        res["demo_output_with_change"] = out[-1200:]
        sh("git apply -R %s" % patch, wt)
        oks = 0
        for i in range(3):
            rc, out = sh(cmd, wt)
            oks += rc == 0
        res["demo_passes_without_change"] = "%d/3" % oks
    finally:
        subprocess.run(["git", "-C", "/repo", "worktree", "remove", "--force", wt], capture_output=True)
    # run the checks against the patched /repo
    st = subprocess.run(["git", "-C", "/repo", "status", "--short"], capture_output=True, text=True).stdout.strip()
    if st:
        print("/repo not clean:", st)
        return 2
    res["checks"] = {}
    try:
        if checks:
            assert subprocess.run(["git", "-C", "/repo", "apply", patch]).returncode == 0
        for c in checks:
            p = subprocess.run(["/verif/check", c], capture_output=True, text=True)
            lines = [l for l in p.stdout.splitlines() if l.startswith(("violation detail", "INCONCLUSIVE", "KNOWN"))]
            res["checks"][c] = {"exit": p.returncode, "detail": [l[:400] for l in lines[:3]]}
    finally:
        if checks:
            subprocess.run(["git", "-C", "/repo", "checkout", "--", "."])
            subprocess.run(["git", "-C", "/repo", "clean", "-fdq"])
    sd = "/verif/seeded/" + sid
    os.makedirs(sd, exist_ok=True)
    shutil.copy(patch, os.path.join(sd, "patch.diff"))
    for f, dest in placements:
        shutil.copy(os.path.join(outdir, f), os.path.join(sd, f))
    if os.path.exists(os.path.join(outdir, "NOTES.md")):
        shutil.copy(os.path.join(outdir, "NOTES.md"), os.path.join(sd, "NOTES.md"))
    res["demo_placement"] = placements
    res["demo_cmd"] = cmd
    with open(os.path.join(sd, "verify.json"), "w") as f:
        json.dump(res, f, indent=1)
    print(json.dumps({k: v for k, v in res.items() if k != "demo_output_with_change"}, indent=1))
    return 0


if __name__ == "__main__":
    sys.exit(main())
